//! C18: every macro-generated scalar-operator impl (14 primitive types x 5 operators x 18 forms),
//! unary negation, and the generic scalar_operation family with a recording closure.

use crate::common::*;
use crate::hist::*;
use crate::tok::*;
use matreex::{Matrix, Order};

trait Bits: Copy {
    fn bits(self) -> u128;
}
macro_rules! bits_int { ($($t:ty)*) => { $( impl Bits for $t { fn bits(self) -> u128 { self as u128 } } )* } }
bits_int! {u8 u16 u32 u64 u128 usize i8 i16 i32 i64 i128 isize}
impl Bits for f32 { fn bits(self) -> u128 { self.to_bits() as u128 } }
impl Bits for f64 { fn bits(self) -> u128 { self.to_bits() as u128 } }

/// which operand orientations are consistent with the observed result (bitwise comparison)?
/// prints the orientation the property states when it is consistent, else the other one / none
fn orient<T: Bits>(result: &[T], es: &[T], se: &[T], matrix_left: bool) -> &'static str {
    let eq = |a: &[T], b: &[T]| a.len() == b.len() && a.iter().zip(b).all(|(x, y)| x.bits() == y.bits());
    let (is_es, is_se) = (eq(result, es), eq(result, se));
    match (matrix_left, is_es, is_se) {
        (true, true, _) => "ES",
        (false, _, true) => "SE",
        (_, true, false) => "ES",
        (_, false, true) => "SE",
        _ => "none",
    }
}

#[inline(never)]
fn report<T: Bits>(out: &mut Out, tn: &str, opn: &str, side: &str, mat: &str, el: &str, sc: &str, want_shape: &str, res: Option<Matrix<T>>, es: &[T], se: &[T]) {
    let op = format!("sc {tn} {opn} {side} {mat} {el} {sc} {want_shape}");
    out.announce(&op);
    let obs = match res {
        None => "panic".to_string(),
        Some(r) => {
            let vals: Vec<T> = r.iter_elements().copied().collect();
            let o = orient(&vals, es, se, side == "L");
            let want = if side == "L" { "ES" } else { "SE" };
            if o != want {
                out.oracle_fail(&format!("{op}: result {:?}... is not `{}` applied elementwise", vals.iter().take(8).map(|v| v.bits()).collect::<Vec<_>>(), if side == "L" { "element op scalar" } else { "scalar op element" }));
            }
            format!("{o} {}", shape_str(&r))
        }
    };
    out.count(&format!("op:{opn}"));
    out.count(&format!("side:{side}"));
    out.observe(&obs);
}

fn shape_str<T>(m: &Matrix<T>) -> String {
    format!("{} {}x{}", ord_ch(m.order()), m.nrows(), m.ncols())
}

macro_rules! one_op {
    ($out:expr, $t:ty, $tn:expr, $opn:expr, $op:tt, $opa:tt, $ev_l:expr, $s_l:expr, $ev_r:expr, $s_r:expr) => {{
        for (order, nr, nc) in [(ORDERS[0], 2usize, 3usize), (ORDERS[1], 2, 3), (ORDERS[0], 64, 65), (ORDERS[1], 3, 1400), (ORDERS[1], 257, 300)] {
            // ---- matrix on the left: element op scalar
            let ev: Vec<$t> = (0..nr * nc).map(|k| $ev_l[k % 6] as $t).collect();
            let s: $t = $s_l as $t;
            let es: Vec<$t> = ev.iter().map(|&e| e $op s).collect();
            let se: Vec<$t> = es.clone(); // placeholder, recomputed where defined
            let _ = se;
            let m: Matrix<$t> = mk_from(order, nr, nc, ev.clone());
            let mr: Matrix<&$t> = m.map_ref(|x| x).unwrap();
            let want_shape = shape_str(&m);
            macro_rules! emit {
                ($side:expr, $mat:expr, $el:expr, $sc:expr, $res:expr, $es:expr, $se:expr) => {
                    report::<$t>($out, $tn, $opn, $side, $mat, $el, $sc, &want_shape, catch(|| $res), &$es, &$se)
                };
            }
            // the "other orientation" for the left forms, only where it cannot overflow: use wrapping-free check by recomputation below
            let se_l: Vec<$t> = match catch(|| ev.iter().map(|&e| s $op e).collect::<Vec<$t>>()) { Some(v) => v, None => Vec::new() };
            emit!("L", "o", "v", "v", m.clone() $op s, es, se_l);
            emit!("L", "o", "v", "r", m.clone() $op &s, es, se_l);
            emit!("L", "b", "v", "v", &m $op s, es, se_l);
            emit!("L", "b", "v", "r", &m $op &s, es, se_l);
            emit!("L", "o", "r", "v", mr.clone() $op s, es, se_l);
            emit!("L", "o", "r", "r", mr.clone() $op &s, es, se_l);
            emit!("L", "b", "r", "v", &mr $op s, es, se_l);
            emit!("L", "b", "r", "r", &mr $op &s, es, se_l);
            // assign forms
            for sc in ["v", "r"] {
                let op = format!("scassign {} {} {} {}", $tn, $opn, sc, want_shape);
                $out.announce(&op);
                let mut x = m.clone();
                let r = if sc == "v" { catch(|| { x $opa s; }) } else { catch(|| { x $opa &s; }) };
                let obs = match r {
                    None => "panic".to_string(),
                    Some(()) => {
                        let vals: Vec<$t> = x.iter_elements().copied().collect();
                        let o = orient(&vals, &es, &se_l, true);
                        if o != "ES" {
                            $out.oracle_fail(&format!("{op}: result is not `element op= scalar` applied elementwise"));
                        }
                        format!("{o} {}", shape_str(&x))
                    }
                };
                $out.observe(&obs);
            }
            // ---- matrix on the right: scalar op element
            let ev: Vec<$t> = (0..nr * nc).map(|k| $ev_r[k % 6] as $t).collect();
            let s: $t = $s_r as $t;
            let se: Vec<$t> = ev.iter().map(|&e| s $op e).collect();
            let es_r: Vec<$t> = match catch(|| ev.iter().map(|&e| e $op s).collect::<Vec<$t>>()) { Some(v) => v, None => Vec::new() };
            let m: Matrix<$t> = mk_from(order, nr, nc, ev.clone());
            let mr: Matrix<&$t> = m.map_ref(|x| x).unwrap();
            let want_shape = shape_str(&m);
            emit!("R", "o", "v", "v", s $op m.clone(), es_r, se);
            emit!("R", "o", "v", "r", &s $op m.clone(), es_r, se);
            emit!("R", "b", "v", "v", s $op &m, es_r, se);
            emit!("R", "b", "v", "r", &s $op &m, es_r, se);
            emit!("R", "o", "r", "v", s $op mr.clone(), es_r, se);
            emit!("R", "o", "r", "r", &s $op mr.clone(), es_r, se);
            emit!("R", "b", "r", "v", s $op &mr, es_r, se);
            emit!("R", "b", "r", "r", &s $op &mr, es_r, se);
        }
    }};
}

// non-commutative witnesses: distinct non-zero operands, no overflow in any of the 14 types
const E_BIG: [i32; 6] = [70, 30, 120, 50, 90, 100];
const E_SMALL: [i32; 6] = [7, 3, 12, 5, 9, 20];

macro_rules! all_ops {
    ($out:expr, $t:ty, $tn:expr) => {{
        $out.case(&format!("scalar-forms type={}", $tn));
        $out.nontrivial();
        one_op!($out, $t, $tn, "add", +, +=, E_BIG, 4, E_SMALL, 100);
        one_op!($out, $t, $tn, "sub", -, -=, E_BIG, 4, E_SMALL, 100);
        one_op!($out, $t, $tn, "mul", *, *=, E_SMALL, 4, E_SMALL, 6);
        one_op!($out, $t, $tn, "div", /, /=, E_BIG, 4, E_SMALL, 100);
        one_op!($out, $t, $tn, "rem", %, %=, E_BIG, 7, E_SMALL, 100);
    }};
}

macro_rules! float_specials {
    ($out:expr, $t:ty, $tn:expr) => {{
        $out.case(&format!("scalar-forms float specials type={}", $tn));
        $out.nontrivial();
        // awkward finite values: rounding makes `x / s` differ from `x * (1 / s)` etc.
        for order in ORDERS {
            for &s in &[49.0 as $t, 3.0, 0.1, 7.3e-5, 1e-39] {
                let ev: [$t; 6] = [49.0, 1.0, 7.0, 0.3, 1e30, 5e-40];
                let m: Matrix<$t> = mk_from(order, 2, 3, ev.to_vec());
                let want_shape = shape_str(&m);
                macro_rules! chk_assign {
                    ($opn:expr, $opa:tt, $opb:tt) => {{
                        for sc in ["v", "r"] {
                            let op = format!("scassign {} {} {} {}", $tn, $opn, sc, want_shape);
                            $out.announce(&op);
                            let mut x = m.clone();
                            if sc == "v" { x $opa s; } else { x $opa &s; }
                            let vals: Vec<$t> = x.iter_elements().copied().collect();
                            let exp: Vec<$t> = ev.iter().map(|&e| e $opb s).collect();
                            let ok = vals.iter().zip(&exp).all(|(a, b)| a.to_bits() == b.to_bits());
                            if !ok {
                                $out.oracle_fail(&format!("{op} with scalar {s:?}: {:?} differs bitwise from {:?}", vals, exp));
                            }
                            $out.observe(&format!("{} {}", if ok { "ES" } else { "none" }, shape_str(&x)));
                        }
                    }};
                }
                chk_assign!("add", +=, +);
                chk_assign!("sub", -=, -);
                chk_assign!("mul", *=, *);
                chk_assign!("div", /=, /);
                chk_assign!("rem", %=, %);
                macro_rules! chk2 {
                    ($opn:expr, $side:expr, $res:expr, $exp:expr) => {{
                        let op = format!("sc {} {} {} b v v {}", $tn, $opn, $side, want_shape);
                        $out.announce(&op);
                        let r: Matrix<$t> = $res;
                        let vals: Vec<$t> = r.iter_elements().copied().collect();
                        let exp: Vec<$t> = $exp;
                        let ok = vals.iter().zip(&exp).all(|(a, b)| a.to_bits() == b.to_bits());
                        if !ok {
                            $out.oracle_fail(&format!("{op} with scalar {s:?}: {:?} differs bitwise from {:?}", vals, exp));
                        }
                        $out.observe(&format!("{} {}", if ok { if $side == "L" { "ES" } else { "SE" } } else { "none" }, shape_str(&r)));
                    }};
                }
                chk2!("div", "L", &m / s, ev.iter().map(|&e| e / s).collect());
                chk2!("div", "R", s / &m, ev.iter().map(|&e| s / e).collect());
                chk2!("mul", "L", &m * s, ev.iter().map(|&e| e * s).collect());
                chk2!("rem", "L", &m % s, ev.iter().map(|&e| e % s).collect());
                chk2!("sub", "R", s - &m, ev.iter().map(|&e| s - e).collect());
            }
        }
        let ev: [$t; 6] = [0.0, -0.0, <$t>::INFINITY, <$t>::NEG_INFINITY, 1.5, -2.25];
        for order in ORDERS {
            for &s in &[0.0 as $t, -0.0, <$t>::INFINITY, 3.0] {
                let m: Matrix<$t> = mk_from(order, 2, 3, ev.to_vec());
                let want_shape = shape_str(&m);
                macro_rules! chk {
                    ($opn:expr, $side:expr, $res:expr, $exp:expr) => {{
                        let op = format!("sc {} {} {} b v v {}", $tn, $opn, $side, want_shape);
                        $out.announce(&op);
                        let r: Matrix<$t> = $res;
                        let vals: Vec<$t> = r.iter_elements().copied().collect();
                        let exp: Vec<$t> = $exp;
                        let ok = vals.iter().zip(&exp).all(|(a, b)| a.to_bits() == b.to_bits());
                        if !ok {
                            $out.oracle_fail(&format!("{op} with scalar {s:?}: {:?} differs bitwise from {:?}", vals, exp));
                        }
                        $out.observe(&format!("{} {}", if ok { if $side == "L" { "ES" } else { "SE" } } else { "none" }, shape_str(&r)));
                    }};
                }
                // assign forms and consuming forms on signed zeros / infinities (bitwise comparison:
                // `-0.0 + 0.0` is `+0.0`, `x * inf`, `inf - inf` = NaN with a defined bit pattern per operation)
                macro_rules! chk_assign_sp {
                    ($opn:expr, $opa:tt, $opb:tt) => {{
                        for sc in ["v", "r"] {
                            let op = format!("scassign {} {} {} {}", $tn, $opn, sc, want_shape);
                            $out.announce(&op);
                            let mut x = m.clone();
                            if sc == "v" { x $opa s; } else { x $opa &s; }
                            let vals: Vec<$t> = x.iter_elements().copied().collect();
                            let exp: Vec<$t> = ev.iter().map(|&e| e $opb s).collect();
                            let ok = vals.iter().zip(&exp).all(|(a, b)| a.to_bits() == b.to_bits());
                            if !ok {
                                $out.oracle_fail(&format!("{op} with scalar {s:?}: {:?} differs bitwise from {:?}", vals, exp));
                            }
                            $out.observe(&format!("{} {}", if ok { "ES" } else { "none" }, shape_str(&x)));
                        }
                    }};
                }
                chk_assign_sp!("add", +=, +);
                chk_assign_sp!("sub", -=, -);
                chk_assign_sp!("mul", *=, *);
                chk_assign_sp!("div", /=, /);
                chk_assign_sp!("rem", %=, %);
                macro_rules! chk_own {
                    ($opn:expr, $side:expr, $res:expr, $exp:expr) => {{
                        let op = format!("sc {} {} {} o v v {}", $tn, $opn, $side, want_shape);
                        $out.announce(&op);
                        let r: Matrix<$t> = $res;
                        let vals: Vec<$t> = r.iter_elements().copied().collect();
                        let exp: Vec<$t> = $exp;
                        let ok = vals.iter().zip(&exp).all(|(a, b)| a.to_bits() == b.to_bits());
                        if !ok {
                            $out.oracle_fail(&format!("{op} with scalar {s:?}: {:?} differs bitwise from {:?}", vals, exp));
                        }
                        $out.observe(&format!("{} {}", if ok { if $side == "L" { "ES" } else { "SE" } } else { "none" }, shape_str(&r)));
                    }};
                }
                chk_own!("add", "L", m.clone() + s, ev.iter().map(|&e| e + s).collect());
                chk_own!("add", "R", s + m.clone(), ev.iter().map(|&e| s + e).collect());
                chk_own!("sub", "L", m.clone() - s, ev.iter().map(|&e| e - s).collect());
                chk_own!("mul", "L", m.clone() * s, ev.iter().map(|&e| e * s).collect());
                chk_own!("div", "R", s / m.clone(), ev.iter().map(|&e| s / e).collect());
                chk!("sub", "L", &m - s, ev.iter().map(|&e| e - s).collect());
                chk!("sub", "R", s - &m, ev.iter().map(|&e| s - e).collect());
                chk!("div", "L", &m / s, ev.iter().map(|&e| e / s).collect());
                chk!("div", "R", s / &m, ev.iter().map(|&e| s / e).collect());
                chk!("add", "L", &m + s, ev.iter().map(|&e| e + s).collect());
                chk!("mul", "R", s * &m, ev.iter().map(|&e| s * e).collect());
                chk!("rem", "L", &m % s, ev.iter().map(|&e| e % s).collect());
                chk!("rem", "R", s % &m, ev.iter().map(|&e| s % e).collect());
            }
        }
    }};
}

macro_rules! neg_forms {
    ($out:expr, $t:ty, $tn:expr) => {{
        $out.case(&format!("neg type={}", $tn));
        $out.nontrivial();
        for order in ORDERS {
            let ev: Vec<$t> = [7, -3, 12, -5, 0, 100].iter().map(|&x| x as $t).collect();
            let m: Matrix<$t> = mk_from(order, 2, 3, ev.clone());
            let exp: Vec<$t> = ev.iter().map(|&e| -e).collect();
            for mat in ["o", "b"] {
                let op = format!("neg {} {} {}", $tn, mat, shape_str(&m));
                $out.announce(&op);
                let r = if mat == "o" { -(m.clone()) } else { -&m };
                let vals: Vec<$t> = r.iter_elements().copied().collect();
                let ok = vals.iter().zip(&exp).all(|(a, b)| a.bits() == b.bits());
                if !ok {
                    $out.oracle_fail(&format!("{op}: {:?} is not the elementwise negation", vals.iter().map(|v| v.bits()).collect::<Vec<_>>()));
                }
                $out.observe(&format!("{} {}", if ok { "N" } else { "none" }, shape_str(&r)));
            }
        }
    }};
}

/// signed integer types: negative elements and scalars (truncated division / remainder, where a
/// shift or a mask is NOT the primitive operator), zero scalars for + and *, all assign / consuming /
/// borrowed forms; compared with the primitive operator applied elementwise
macro_rules! signed_specials {
    ($out:expr, $t:ty, $tn:expr) => {{
        $out.case(&format!("scalar-forms signed specials type={}", $tn));
        $out.nontrivial();
        let ev: [$t; 6] = [-7, 5, -3, 12, -1, 0];
        for order in ORDERS {
            for &s in &[4 as $t, -4, 1, -1, 2, 8, 3, -3, 0] {
                let m: Matrix<$t> = mk_from(order, 2, 3, ev.to_vec());
                let want_shape = shape_str(&m);
                macro_rules! chk_a {
                    ($opn:expr, $opa:tt, $opb:tt) => {{
                        for sc in ["v", "r"] {
                            let op = format!("scassign {} {} {} {}", $tn, $opn, sc, want_shape);
                            $out.announce(&op);
                            let mut x = m.clone();
                            if sc == "v" { x $opa s; } else { x $opa &s; }
                            let vals: Vec<$t> = x.iter_elements().copied().collect();
                            let exp: Vec<$t> = ev.iter().map(|&e| e $opb s).collect();
                            let ok = vals == exp;
                            if !ok { $out.oracle_fail(&format!("{op} with scalar {s:?}: {:?} is not `element op scalar` = {:?}", vals, exp)); }
                            $out.observe(&format!("{} {}", if ok { "ES" } else { "none" }, shape_str(&x)));
                        }
                    }};
                }
                macro_rules! chk_b {
                    ($opn:expr, $side:expr, $mat:expr, $res:expr, $exp:expr) => {{
                        let op = format!("sc {} {} {} {} v v {}", $tn, $opn, $side, $mat, want_shape);
                        $out.announce(&op);
                        let r: Matrix<$t> = $res;
                        let vals: Vec<$t> = r.iter_elements().copied().collect();
                        let exp: Vec<$t> = $exp;
                        let ok = vals == exp;
                        if !ok { $out.oracle_fail(&format!("{op} with scalar {s:?}: {:?} differs from {:?}", vals, exp)); }
                        $out.observe(&format!("{} {}", if ok { if $side == "L" { "ES" } else { "SE" } } else { "none" }, shape_str(&r)));
                    }};
                }
                chk_a!("add", +=, +);
                chk_a!("sub", -=, -);
                chk_a!("mul", *=, *);
                chk_b!("add", "L", "o", m.clone() + s, ev.iter().map(|&e| e + s).collect());
                chk_b!("sub", "R", "b", s - &m, ev.iter().map(|&e| s - e).collect());
                chk_b!("mul", "R", "o", s * m.clone(), ev.iter().map(|&e| s * e).collect());
                if s != 0 {
                    chk_a!("div", /=, /);
                    chk_a!("rem", %=, %);
                    chk_b!("div", "L", "b", &m / s, ev.iter().map(|&e| e / s).collect());
                    chk_b!("rem", "L", "o", m.clone() % s, ev.iter().map(|&e| e % s).collect());
                    chk_b!("rem", "L", "b", &m % s, ev.iter().map(|&e| e % s).collect());
                }
            }
        }
    }};
}

/// the generic family on a source of zero-sized elements with a sized output (the output's size
/// decides the capacity check; the closure runs once per element): harness-side oracle only
fn generic_zero_sized_source(out: &mut Out) {
    out.case("scalar-generic zero-sized source");
    out.nontrivial();
    for (nr, nc) in [(0usize, 0usize), (2, 3), (1, 5), (3, 0)] {
        for order in ORDERS {
            for variant in ["ref", "consume", "assign"] {
                let op = format!("oracle scgen-zst {variant} {} {nr} {nc}", ord_ch(order));
                out.announce(&op);
                let calls = std::cell::Cell::new(0usize);
                let m: Matrix<()> = mk(order, nr, nc, |_| ());
                let res: Option<Result<(usize, usize, Order, Vec<u8>), matreex::Error>> = match variant {
                    "ref" => catch(|| m.scalar_operation(&7u8, |_, s| { calls.set(calls.get() + 1); *s }).map(|r| (r.nrows(), r.ncols(), r.order(), r.iter_elements().copied().collect()))),
                    "consume" => catch(|| m.scalar_operation_consume_self(&7u8, |_, s| { calls.set(calls.get() + 1); *s }).map(|r| (r.nrows(), r.ncols(), r.order(), r.iter_elements().copied().collect()))),
                    _ => { let mut m = m; catch(|| { m.scalar_operation_assign(&7u8, |_, _| { calls.set(calls.get() + 1); }); Ok((m.nrows(), m.ncols(), m.order(), vec![7u8; nr * nc])) }) }
                };
                match res {
                    Some(Ok((r, c, o, v))) => {
                        if (r, c, o) != (nr, nc, order) || v != vec![7u8; nr * nc] || calls.get() != nr * nc {
                            out.oracle_fail(&format!("{op}: result {r}x{c} {:?} {:?}, closure called {} times for {} elements", o, v, calls.get(), nr * nc));
                        }
                    }
                    other => out.oracle_fail(&format!("{op}: expected Ok, implementation gave {:?}", other.map(|x| x.map(|_| ())))),
                }
                out.observe("ok");
            }
        }
    }
}

/// generic scalar_operation family with a recording closure on token matrices
fn generic(out: &mut Out, bound: usize) {
    for nr in 0..=bound {
        for nc in 0..=bound {
            for order in ORDERS {
                out.case(&format!("scalar-generic shape={nr}x{nc}{}", ord_ch(order)));
                let mut w = World::<Tok>::new(out);
                for variant in ["ref", "consume", "assign"] {
                    w.new_matrix(out, 0, order, nr, nc, 1);
                    w.scgen(out, 1, 0, variant);
                }
                for r in 0..2 {
                    if w.regs[r].is_some() { w.drop_reg(out, r); }
                }
                if nr * nc > 1 { out.nontrivial(); }
            }
        }
    }
}

pub fn run_c18(out: &mut Out, _rng: &mut Rng, tier: Tier) -> String {
    ledger_reset();
    all_ops!(out, u8, "u8");
    all_ops!(out, u16, "u16");
    all_ops!(out, u32, "u32");
    all_ops!(out, u64, "u64");
    all_ops!(out, u128, "u128");
    all_ops!(out, usize, "usize");
    all_ops!(out, i8, "i8");
    all_ops!(out, i16, "i16");
    all_ops!(out, i32, "i32");
    all_ops!(out, i64, "i64");
    all_ops!(out, i128, "i128");
    all_ops!(out, isize, "isize");
    all_ops!(out, f32, "f32");
    all_ops!(out, f64, "f64");
    float_specials!(out, f32, "f32");
    float_specials!(out, f64, "f64");
    neg_forms!(out, i8, "i8");
    neg_forms!(out, i16, "i16");
    neg_forms!(out, i32, "i32");
    neg_forms!(out, i64, "i64");
    neg_forms!(out, i128, "i128");
    neg_forms!(out, isize, "isize");
    neg_forms!(out, f32, "f32");
    neg_forms!(out, f64, "f64");
    signed_specials!(out, i8, "i8");
    signed_specials!(out, i16, "i16");
    signed_specials!(out, i32, "i32");
    signed_specials!(out, i64, "i64");
    signed_specials!(out, i128, "i128");
    signed_specials!(out, isize, "isize");
    generic(out, if tier == Tier::Quick { 3 } else { 5 });
    generic_zero_sized_source(out);
    let s = snapshot();
    if s.double_drops > 0 || s.live != 0 {
        out.oracle_fail(&format!("ledger at the end of the run: {} tokens still live, {} double drops", s.live, s.double_drops));
    }
    out.exhaustive = true;
    "exhaustive over the impl table: 14 primitive types x {+,-,*,/,%} x 16 operator forms (matrix or &matrix, element or &element, scalar or &scalar, scalar left or right) + 2 assign forms, each on 2x3 matrices in both storage orders and on a 64x65, a 3x1400 and a 257x300 matrix (4160, 4200 and 77100 elements: beyond the sizes at which an implementation might switch to a blocked or parallel path) \
     with non-commutative witnesses (distinct non-zero operands, no overflow), results compared bitwise with the primitive operator applied in both orientations (the model supplies the orientation from the re-extracted table); \
     float signed zeros / infinities and awkward finite values (non-power-of-two and subnormal scalars, all assign forms); negative elements / scalars and power-of-two, unit and zero scalars for the six signed integer types (truncated / and %); the generic family on a zero-sized source with a sized output; unary negation (owned and borrowed) for the 8 signed/float types; the generic scalar_operation family (three variants) with a recording closure on token matrices of every shape up to the bound. \
     A case = one primitive type (all its forms) or one shape".to_string()
}
