//! C05: transpose / order operations — exhaustive over shapes (every cycle-structure class),
//! both orders, token and zero-sized elements; then random compositions.

use crate::common::*;
use crate::hist::*;
use crate::tok::*;
use matreex::Order;

const OPS: [(&str, Option<Order>); 7] = [
    ("transpose", None),
    ("switch", None),
    ("switch_wr", None),
    ("set_order", Some(Order::RowMajor)),
    ("set_order", Some(Order::ColMajor)),
    ("set_order_wr", Some(Order::RowMajor)),
    ("set_order_wr", Some(Order::ColMajor)),
];

fn single_ops<E: Elem>(out: &mut Out, bound: usize) {
    let shapes: Vec<(usize, usize)> = (0..=bound).flat_map(|r| (0..=bound).map(move |c| (r, c))).collect();
    single_ops_on::<E>(out, &shapes);
}

fn single_ops_on<E: Elem>(out: &mut Out, shapes: &[(usize, usize)]) {
    for &(nr, nc) in shapes {
        {
            for order in ORDERS {
                out.case(&format!("single elem={} class={} shape={nr}x{nc} order={}", E::KIND, shape_class(nr, nc), ord_ch(order)));
                out.count(&format!("shape-class:{}", shape_class(nr, nc)));
                let mut w = World::<E>::new(out);
                for (name, arg) in OPS {
                    w.new_matrix(out, 0, order, nr, nc, 1);
                    let mem0: Vec<String> = w.regs[0].as_ref().unwrap().iter_elements().map(|e| e.show()).collect();
                    w.order_op(out, 0, name, arg);
                    if name == "transpose" {
                        // applied twice: the original memory sequence comes back
                        w.order_op(out, 0, name, arg);
                        let mem2: Vec<String> = w.regs[0].as_ref().unwrap().iter_elements().map(|e| e.show()).collect();
                        if mem0 != mem2 {
                            out.oracle_fail(&format!("transpose twice on {nr}x{nc} {}: memory sequence {:?} became {:?}", ord_ch(order), mem0, mem2));
                        }
                    }
                    if name.ends_with("_wr") {
                        let mem1: Vec<String> = w.regs[0].as_ref().unwrap().iter_elements().map(|e| e.show()).collect();
                        if mem0 != mem1 {
                            out.oracle_fail(&format!("{name} changed the memory sequence"));
                        }
                    }
                    w.drop_reg(out, 0);
                }
                if nr * nc > 1 && nr != 1 && nc != 1 && !E::ZST {
                    out.nontrivial();
                }
            }
        }
    }
}

fn compositions<E: Elem>(out: &mut Out, rng: &mut Rng, n: usize, maxdim: usize, len: usize) {
    for _ in 0..n {
        let nr = rng.below(maxdim + 1);
        let nc = rng.below(maxdim + 1);
        let order = *rng.pick(&ORDERS);
        out.case(&format!("composition elem={} class={} shape={nr}x{nc}", E::KIND, shape_class(nr, nc)));
        out.count(&format!("composition-class:{}", shape_class(nr, nc)));
        let mut w = World::<E>::new(out);
        w.new_matrix(out, 0, order, nr, nc, 1);
        let steps = 1 + rng.below(len);
        for _ in 0..steps {
            let (name, arg) = *rng.pick(&OPS);
            out.count(&format!("op:{name}"));
            w.order_op(out, 0, name, arg);
        }
        w.drop_reg(out, 0);
        if nr > 1 && nc > 1 {
            out.nontrivial();
        }
    }
}

/// the order operations on matrices whose buffer has spare capacity (left behind by a shrinking
/// `resize`: capacity >= 3 x size) — state of an earlier operation that the data path might rely on
fn single_ops_spare_capacity<E: Elem>(out: &mut Out, bound: usize) {
    for nr in 1..=bound {
        for nc in 1..=bound {
            for order in ORDERS {
                out.case(&format!("spare-capacity elem={} shape={nr}x{nc} order={}", E::KIND, ord_ch(order)));
                if nr > 1 && nc > 1 { out.nontrivial(); }
                let mut w = World::<E>::new(out);
                for (name, arg) in OPS {
                    w.new_matrix(out, 0, order, 3 * nr, nc + 1, 1);
                    w.resize(out, 0, nr, nc);
                    let m = w.regs[0].as_ref().unwrap();
                    if !E::ZST && m.capacity() < 2 * m.size() { out.oracle_fail("harness: expected spare capacity after the shrinking resize"); }
                    w.order_op(out, 0, name, arg);
                    w.order_op(out, 0, name, arg);
                    w.drop_reg(out, 0);
                }
            }
        }
    }
}

/// the order operations on matrices of zero-sized elements with up to usize::MAX elements: nothing is
/// moved, so every one of them returns at once with the logical shape the operation prescribes
fn huge_zero_sized(out: &mut Out) {
    use matreex::{Matrix, Order};
    out.case("order operations on huge zero-sized matrices");
    out.nontrivial();
    let h = usize::MAX;
    for (r, c) in [(h, 1usize), (1, h), (2, isize::MAX as usize), (3, h / 3), (1usize << 32, (1usize << 32) - 1), (65536, 65537)] {
        for order in ORDERS {
            for name in ["transpose", "switch", "switch_wr", "set_order_other", "set_order_same", "set_order_wr_other"] {
                let op = format!("oracle zst-order-op {name} {r} {c} {}", ord_ch(order));
                out.announce(&op);
                let mut v: Vec<()> = Vec::new();
                unsafe { v.set_len(r * c) };
                let mut m = crate::common::mk_from(order, r, c, v);
                let other = if order == Order::RowMajor { Order::ColMajor } else { Order::RowMajor };
                let res = catch(|| { match name {
                    "transpose" => { m.transpose(); }
                    "switch" => { m.switch_order(); }
                    "switch_wr" => { m.switch_order_without_rearrangement(); }
                    "set_order_other" => { m.set_order(other); }
                    "set_order_same" => { m.set_order(order); }
                    _ => { m.set_order_without_rearrangement(other); }
                } });
                // logical shape / order afterwards
                let want = match name {
                    "transpose" => (c, r, order),
                    "switch" | "set_order_other" => (r, c, other),
                    "set_order_same" => (r, c, order),
                    _ => (c, r, other),
                };
                if res.is_none() { out.oracle_fail(&format!("{op}: panicked")); }
                else if (m.nrows(), m.ncols(), m.order()) != want || m.size() != r * c {
                    out.oracle_fail(&format!("{op}: got {}x{} {:?} over {} elements, expected {}x{} {:?} over {}", m.nrows(), m.ncols(), m.order(), m.size(), want.0, want.1, want.2, r * c));
                }
                let _: &Matrix<()> = &m;
                out.observe("ok");
            }
        }
    }
}

pub fn run_c05(out: &mut Out, rng: &mut Rng, tier: Tier) -> String {
    ledger_reset();
    single_ops_spare_capacity::<Tok>(out, 4);
    single_ops_spare_capacity::<u32>(out, 3);
    huge_zero_sized(out);
    let bound = if tier == Tier::Quick { 9 } else { 12 };
    single_ops::<Tok>(out, bound);
    single_ops::<()>(out, if tier == Tier::Quick { 4 } else { 6 });
    // beyond the size thresholds at which an implementation might switch algorithms
    single_ops_on::<Tok>(out, &LARGE);
    single_ops_on::<u32>(out, &LARGE[..2]);
    single_ops_on::<Tok>(out, &VERY_LARGE);
    single_ops_on::<u32>(out, &VERY_LARGE);
    let n = if tier == Tier::Quick { 400 } else { 4000 };
    compositions::<Tok>(out, rng, n, 9, 20);
    compositions::<()>(out, rng, n / 8, 5, 12);
    // zero-sized elements with observable construction / destruction: the ledger delta of every operation is compared
    out.led_mode = true;
    single_ops::<Zd>(out, 3);
    compositions::<Zd>(out, rng, n / 16, 4, 10);
    out.led_mode = false;
    let z = snapshot();
    if z.zst_live != 0 || z.zst_overdrops != 0 {
        out.oracle_fail(&format!("zero-sized elements with drop glue: created - dropped = {} after all matrices were dropped, drops beyond creations = {}", z.zst_live, z.zst_overdrops));
    }
    let s = snapshot();
    if s.double_drops > 0 || s.live != 0 {
        out.oracle_fail(&format!("ledger at the end of the run: {} tokens still live, {} double drops", s.live, s.double_drops));
    }
    out.exhaustive = true;
    format!(
        "exhaustive core: every shape 0..={bound} x 0..={bound} (square, 1xn, nx1, coprime, common-factor, degenerate) x both orders x the seven operation forms \
         (transpose [applied twice], switch_order, switch_order_without_rearrangement, set_order R/C, set_order_without_rearrangement R/C) on token elements (unique id, clone/drop ledger), \
         the same for zero-sized elements up to a smaller bound; the seven forms on 64x65, 63x65, 3x1400, 1x4099, 4099x1 and 33x32 (beyond 1024 / 4096 elements); then {n} random compositions (length <= 20) of the operations on shapes up to 9x9. \
         Oracle after every operation: every coordinate through get() against an independent row-of-rows reference, order tag, shape, ledger silent, double transpose restores the memory sequence. \
         A case is non-trivial when the shape has both extents > 1 (elements actually move) and elements are tokens"
    )
}
