//! C05: transpose / order operations — exhaustive over shapes (every cycle-structure class),
//! both orders, token and zero-sized elements; then random compositions.

use crate::common::*;
use crate::hist::*;
use crate::tok::*;
use matreex::Order;

const OPS: [(&str, Option<Order>); 7] = [
    ("transpose", None),
    ("switch", None),
    ("switch_wr", None),
    ("set_order", Some(Order::RowMajor)),
    ("set_order", Some(Order::ColMajor)),
    ("set_order_wr", Some(Order::RowMajor)),
    ("set_order_wr", Some(Order::ColMajor)),
];

fn single_ops<E: Elem>(out: &mut Out, bound: usize) {
    let shapes: Vec<(usize, usize)> = (0..=bound).flat_map(|r| (0..=bound).map(move |c| (r, c))).collect();
    single_ops_on::<E>(out, &shapes);
}

fn single_ops_on<E: Elem>(out: &mut Out, shapes: &[(usize, usize)]) {
    for &(nr, nc) in shapes {
        {
            for order in ORDERS {
                out.case(&format!("single elem={} class={} shape={nr}x{nc} order={}", E::KIND, shape_class(nr, nc), ord_ch(order)));
                out.count(&format!("shape-class:{}", shape_class(nr, nc)));
                let mut w = World::<E>::new(out);
                for (name, arg) in OPS {
                    w.new_matrix(out, 0, order, nr, nc, 1);
                    let mem0: Vec<String> = w.regs[0].as_ref().unwrap().iter_elements().map(|e| e.show()).collect();
                    w.order_op(out, 0, name, arg);
                    if name == "transpose" {
                        // applied twice: the original memory sequence comes back
                        w.order_op(out, 0, name, arg);
                        let mem2: Vec<String> = w.regs[0].as_ref().unwrap().iter_elements().map(|e| e.show()).collect();
                        if mem0 != mem2 {
                            out.oracle_fail(&format!("transpose twice on {nr}x{nc} {}: memory sequence {:?} became {:?}", ord_ch(order), mem0, mem2));
                        }
                    }
                    if name.ends_with("_wr") {
                        let mem1: Vec<String> = w.regs[0].as_ref().unwrap().iter_elements().map(|e| e.show()).collect();
                        if mem0 != mem1 {
                            out.oracle_fail(&format!("{name} changed the memory sequence"));
                        }
                    }
                    w.drop_reg(out, 0);
                }
                if nr * nc > 1 && nr != 1 && nc != 1 && !E::ZST {
                    out.nontrivial();
                }
            }
        }
    }
}

fn compositions<E: Elem>(out: &mut Out, rng: &mut Rng, n: usize, maxdim: usize, len: usize) {
    for _ in 0..n {
        let nr = rng.below(maxdim + 1);
        let nc = rng.below(maxdim + 1);
        let order = *rng.pick(&ORDERS);
        out.case(&format!("composition elem={} class={} shape={nr}x{nc}", E::KIND, shape_class(nr, nc)));
        out.count(&format!("composition-class:{}", shape_class(nr, nc)));
        let mut w = World::<E>::new(out);
        w.new_matrix(out, 0, order, nr, nc, 1);
        let steps = 1 + rng.below(len);
        for _ in 0..steps {
            let (name, arg) = *rng.pick(&OPS);
            out.count(&format!("op:{name}"));
            w.order_op(out, 0, name, arg);
        }
        w.drop_reg(out, 0);
        if nr > 1 && nc > 1 {
            out.nontrivial();
        }
    }
}

pub fn run_c05(out: &mut Out, rng: &mut Rng, tier: Tier) -> String {
    ledger_reset();
    let bound = if tier == Tier::Quick { 9 } else { 12 };
    single_ops::<Tok>(out, bound);
    single_ops::<()>(out, if tier == Tier::Quick { 4 } else { 6 });
    // beyond the size thresholds at which an implementation might switch algorithms
    single_ops_on::<Tok>(out, &LARGE);
    single_ops_on::<u32>(out, &LARGE[..2]);
    single_ops_on::<Tok>(out, &VERY_LARGE);
    single_ops_on::<u32>(out, &VERY_LARGE);
    let n = if tier == Tier::Quick { 400 } else { 4000 };
    compositions::<Tok>(out, rng, n, 9, 20);
    compositions::<()>(out, rng, n / 8, 5, 12);
    // zero-sized elements with observable construction / destruction: the ledger delta of every operation is compared
    out.led_mode = true;
    single_ops::<Zd>(out, 3);
    compositions::<Zd>(out, rng, n / 16, 4, 10);
    out.led_mode = false;
    let z = snapshot();
    if z.zst_live != 0 || z.zst_overdrops != 0 {
        out.oracle_fail(&format!("zero-sized elements with drop glue: created - dropped = {} after all matrices were dropped, drops beyond creations = {}", z.zst_live, z.zst_overdrops));
    }
    let s = snapshot();
    if s.double_drops > 0 || s.live != 0 {
        out.oracle_fail(&format!("ledger at the end of the run: {} tokens still live, {} double drops", s.live, s.double_drops));
    }
    out.exhaustive = true;
    format!(
        "exhaustive core: every shape 0..={bound} x 0..={bound} (square, 1xn, nx1, coprime, common-factor, degenerate) x both orders x the seven operation forms \
         (transpose [applied twice], switch_order, switch_order_without_rearrangement, set_order R/C, set_order_without_rearrangement R/C) on token elements (unique id, clone/drop ledger), \
         the same for zero-sized elements up to a smaller bound; the seven forms on 64x65, 63x65, 3x1400, 1x4099, 4099x1 and 33x32 (beyond 1024 / 4096 elements); then {n} random compositions (length <= 20) of the operations on shapes up to 9x9. \
         Oracle after every operation: every coordinate through get() against an independent row-of-rows reference, order tag, shape, ledger silent, double transpose restores the memory sequence. \
         A case is non-trivial when the shape has both extents > 1 (elements actually move) and elements are tokens"
    )
}
