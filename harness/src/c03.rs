//! C03: the mutable row/column iterators under arbitrary interleavings of next / next_back / len on
//! the outer iterator and on all inner iterators it has produced (all kept alive).

use crate::common::*;
use crate::hist::*;
use crate::tok::*;
use matreex::{Matrix, Order};

#[derive(Clone, Copy, Debug, PartialEq)]
pub enum Call {
    ONext,
    ONextBack,
    OLen,
    INext(usize),
    INextBack(usize),
    ILen(usize),
}

impl Call {
    fn line(&self) -> String {
        match self {
            Call::ONext => "it onext".into(),
            Call::ONextBack => "it onextback".into(),
            Call::OLen => "it olen".into(),
            Call::INext(i) => format!("it inext {i}"),
            Call::INextBack(i) => format!("it inextback {i}"),
            Call::ILen(i) => format!("it ilen {i}"),
        }
    }
}

/// the property's own oracle: a deque of vector numbers whose items are deques of positions
struct Deques {
    al: usize,
    vl: usize,
    f: usize,
    b: usize,
    inners: Vec<(usize, usize, usize)>, // (vector number, taken from front, taken from back)
}

fn ptrs_str<E>(base: usize) -> String {
    let es = size_of::<E>();
    let evs = matreex::verif_hooks::take_ptrs();
    let mut s = String::from(" | p");
    for (_, a) in evs {
        if es == 0 { s.push_str(&format!(" {a}")); } else { s.push_str(&format!(" {}", (a.wrapping_sub(base)) / es)); }
    }
    s
}

/// range check of every pointer value formed (also those never dereferenced)
fn check_ptrs<E>(out: &mut Out, base: usize, len: usize, what: &str) -> String {
    let es = size_of::<E>();
    let evs = matreex::verif_hooks::take_ptrs();
    let mut s = String::from(" | p");
    for (site, a) in evs {
        if es == 0 {
            if a == 0 { out.oracle_fail(&format!("{what}: null pointer formed at {site}")); }
            s.push_str(&format!(" {a}"));
        } else {
            if a < base || a > base + len * es || (a - base) % es != 0 {
                out.oracle_fail(&format!("{what}: pointer {a:#x} formed at {site} lies outside the buffer [{base:#x}, {:#x}]", base + len * es));
            }
            s.push_str(&format!(" {}", a.wrapping_sub(base) / es));
        }
    }
    s
}

fn drive<E, O, I>(out: &mut Out, mut outer: O, calls: &[Call], base: usize, len: usize, order: Order, nr: usize, nc: usize, rows: bool)
where
    O: ExactSizeIterator<Item = I> + DoubleEndedIterator,
    I: ExactSizeIterator<Item = &'static mut E> + DoubleEndedIterator,
    E: 'static,
{
    let es = size_of::<E>();
    let (al, vl) = if rows { (nr, nc) } else { (nc, nr) };
    let mut spec = Deques { al, vl, f: 0, b: 0, inners: Vec::new() };
    let mut inners: Vec<I> = Vec::new();
    let mut seen = std::collections::HashSet::new();
    let offset_of = |k: usize, t: usize| -> usize {
        let (r, c) = if rows { (k, t) } else { (t, k) };
        match order { Order::RowMajor => r * nc + c, Order::ColMajor => c * nr + r }
    };
    for call in calls {
        let line = call.line();
        out.announce(&line);
        let obs = match *call {
            Call::ONext | Call::ONextBack => {
                let back = *call == Call::ONextBack;
                let r = if back { outer.next_back() } else { outer.next() };
                let want = spec.f + spec.b < spec.al;
                if r.is_some() != want {
                    out.oracle_fail(&format!("{line}: outer iterator returned {} with {} vectors still to come", if r.is_some() { "a vector" } else { "None" }, spec.al - spec.f - spec.b));
                }
                match r {
                    Some(v) => {
                        inners.push(v);
                        if want {
                            if back { spec.inners.push((spec.al - 1 - spec.b, 0, 0)); spec.b += 1; } else { spec.inners.push((spec.f, 0, 0)); spec.f += 1; }
                        } else {
                            spec.inners.push((usize::MAX, 0, 0));
                        }
                        format!("vec true{}", check_ptrs::<E>(out, base, len, &line))
                    }
                    None => format!("vec false{}", check_ptrs::<E>(out, base, len, &line)),
                }
            }
            Call::OLen => {
                let n = outer.len();
                if n != spec.al - spec.f - spec.b {
                    out.oracle_fail(&format!("{line}: len() = {n} with {} vectors still to come", spec.al - spec.f - spec.b));
                }
                let _ = check_ptrs::<E>(out, base, len, &line);
                format!("len {n}")
            }
            Call::INext(i) | Call::INextBack(i) => {
                if i >= inners.len() {
                    "no-such-iterator".to_string()
                } else {
                    let back = matches!(call, Call::INextBack(_));
                    let r = if back { inners[i].next_back() } else { inners[i].next() };
                    let (k, f, b) = spec.inners[i];
                    let want = k != usize::MAX && f + b < spec.vl;
                    let item = match r {
                        None => {
                            if want { out.oracle_fail(&format!("{line}: None with {} items still to come", spec.vl - f - b)); }
                            "none".to_string()
                        }
                        Some(e) => {
                            let addr = e as *mut E as usize;
                            if !want {
                                out.oracle_fail(&format!("{line}: an item was yielded by an exhausted iterator"));
                                if es == 0 { "z".to_string() } else { format!("{}", addr.wrapping_sub(base) / es) }
                            } else {
                                let t = if back { spec.vl - 1 - b } else { f };
                                if back { spec.inners[i].2 += 1; } else { spec.inners[i].1 += 1; }
                                if es == 0 {
                                    if addr == 0 || addr % align_of::<E>() != 0 {
                                        out.oracle_fail(&format!("{line}: reference to a zero-sized value at misaligned/null address {addr:#x}"));
                                    }
                                    "z".to_string()
                                } else {
                                    let expect = base + offset_of(k, t) * es;
                                    if addr != expect {
                                        out.oracle_fail(&format!("{line}: yielded address is element offset {} but position ({k}, {t}) is at offset {}", addr.wrapping_sub(base) / es, offset_of(k, t)));
                                    }
                                    if !seen.insert(addr) {
                                        out.oracle_fail(&format!("{line}: element at offset {} handed out as &mut twice", addr.wrapping_sub(base) / es));
                                    }
                                    format!("{}", addr.wrapping_sub(base) / es)
                                }
                            }
                        }
                    };
                    format!("item {item}{}", check_ptrs::<E>(out, base, len, &line))
                }
            }
            Call::ILen(i) => {
                if i >= inners.len() {
                    "no-such-iterator".to_string()
                } else {
                    let n = inners[i].len();
                    let (k, f, b) = spec.inners[i];
                    let want = if k == usize::MAX { 0 } else { spec.vl - f - b };
                    if n != want {
                        out.oracle_fail(&format!("{line}: len() = {n} with {want} items still to come"));
                    }
                    let _ = check_ptrs::<E>(out, base, len, &line);
                    format!("len {n}")
                }
            }
        };
        out.observe(&obs);
    }
    let _ = ptrs_str::<E>;
}

fn run_case<E: Elem>(out: &mut Out, order: Order, nr: usize, nc: usize, rows: bool, calls: &[Call]) {
    out.case(&format!("itmut elem={} shape={nr}x{nc}{} axis={} class={} calls={}", E::KIND, ord_ch(order), if rows { "rows" } else { "cols" }, shape_class(nr, nc), calls.len()));
    out.op(&format!("elem {}", E::KIND), "ok");
    let op = format!("new 0 {} {nr} {nc} 1", ord_ch(order));
    out.announce(&op);
    let mut m: Matrix<E> = mk(order, nr, nc, |k| E::make((1 + k).to_string()));
    out.observe(&format!("ok | {}", st_str(&m)));
    let base = m.iter_elements().next().map(|e| e as *const E as usize).unwrap_or(0);
    let len = m.size();
    let _ = matreex::verif_hooks::take_ptrs();
    let line = format!("itopen 0 {}", if rows { "rows" } else { "cols" });
    out.announce(&line);
    // the references handed out are tied to `m`; the case ends before `m` is touched again
    let mp: &'static mut Matrix<E> = unsafe { &mut *(&mut m as *mut Matrix<E>) };
    if rows {
        let outer = mp.iter_rows_mut();
        let obs = format!("ok{}", check_ptrs::<E>(out, base, len, &line));
        out.observe(&obs);
        drive::<E, _, _>(out, outer, calls, base, len, order, nr, nc, rows);
    } else {
        let outer = mp.iter_cols_mut();
        let obs = format!("ok{}", check_ptrs::<E>(out, base, len, &line));
        out.observe(&obs);
        drive::<E, _, _>(out, outer, calls, base, len, order, nr, nc, rows);
    }
    out.nontrivial();
}

/// all call sequences of the given length over the alphabet available at each point
fn enumerate_calls(len: usize, max_inner: usize, f: &mut dyn FnMut(&[Call])) {
    fn rec(prefix: &mut Vec<Call>, inners: usize, left: usize, max_inner: usize, f: &mut dyn FnMut(&[Call])) {
        if left == 0 {
            f(prefix);
            return;
        }
        let mut alphabet = vec![Call::ONext, Call::ONextBack, Call::OLen];
        for i in 0..inners.min(max_inner) {
            alphabet.extend([Call::INext(i), Call::INextBack(i), Call::ILen(i)]);
        }
        for c in alphabet {
            prefix.push(c);
            let more = matches!(c, Call::ONext | Call::ONextBack) as usize;
            rec(prefix, inners + more, left - 1, max_inner, f);
            prefix.pop();
        }
    }
    rec(&mut Vec::new(), 0, len, max_inner, f);
}

fn random_calls(rng: &mut Rng, n: usize) -> Vec<Call> {
    let mut inners = 0usize;
    let mut v = Vec::new();
    for _ in 0..n {
        let c = match rng.below(10) {
            0 | 1 => Call::ONext,
            2 => Call::ONextBack,
            3 => Call::OLen,
            x if inners > 0 => {
                let i = rng.below(inners + 1); // sometimes an iterator that does not exist yet
                match x { 4 | 5 | 6 => Call::INext(i), 7 | 8 => Call::INextBack(i), _ => Call::ILen(i) }
            }
            _ => Call::ONext,
        };
        if matches!(c, Call::ONext | Call::ONextBack) { inners += 1; }
        v.push(c);
    }
    v
}

/// zero-sized elements with extents up to usize::MAX
fn huge_zst<E: Elem>(out: &mut Out, align: usize) {
    for (a, b) in [(1usize, usize::MAX), (usize::MAX, 1), (3, usize::MAX / 3), (usize::MAX / 2, 2), (1 << 32, 1 << 31)] {
        for order in ORDERS {
            for rows in [true, false] {
                // both ends of the outer iterator and of the inner ones; never a full traversal
                let calls = [Call::OLen, Call::ONextBack, Call::ONext, Call::OLen, Call::ILen(0), Call::INextBack(0), Call::INext(0), Call::ILen(0), Call::INext(1), Call::INextBack(1), Call::ILen(1), Call::ONextBack, Call::OLen];
                out.case(&format!("itmut-huge elem={} shape={a}x{b}{} axis={}", E::KIND, ord_ch(order), if rows { "rows" } else { "cols" }));
                out.op(&format!("elem {}", E::KIND), "ok");
                let mut v: Vec<E> = Vec::new();
                unsafe { v.set_len(a * b) };
                let mut m = mk_from(order, a, b, v);
                let _ = matreex::verif_hooks::take_ptrs();
                let line = format!("zitopen {} {a} {b} {} {align}", ord_ch(order), if rows { "rows" } else { "cols" });
                out.announce(&line);
                let mp: &'static mut Matrix<E> = unsafe { &mut *(&mut m as *mut Matrix<E>) };
                let res = catch(|| {
                    if rows {
                        let outer = mp.iter_rows_mut();
                        let evs = matreex::verif_hooks::take_ptrs();
                        (Some(outer), None, evs)
                    } else {
                        let outer = mp.iter_cols_mut();
                        let evs = matreex::verif_hooks::take_ptrs();
                        (None, Some(outer), evs)
                    }
                });
                match res {
                    None => {
                        out.oracle_fail(&format!("{line}: constructing the iterator panicked"));
                        out.observe("panic");
                    }
                    Some((ro, co, evs)) => {
                        let mut s = String::from("ok | p");
                        for (_, x) in evs { s.push_str(&format!(" {x}")); }
                        out.observe(&s);
                        let r = catch(|| {
                            if let Some(o) = ro { drive::<E, _, _>(out, o, &calls, 0, a * b, order, a, b, rows); }
                            if let Some(o) = co { drive::<E, _, _>(out, o, &calls, 0, a * b, order, a, b, rows); }
                        });
                        if r.is_none() {
                            out.oracle_fail(&format!("{line}: a call on the iterator panicked"));
                            out.observe("panic");
                        }
                    }
                }
                out.nontrivial();
            }
        }
    }
}

pub fn run_c03(out: &mut Out, rng: &mut Rng, tier: Tier) -> String {
    let exh_len = if tier == Tier::Quick { 4 } else { 5 };
    // exhaustive core: all call sequences up to exh_len on small shapes
    for (nr, nc) in [(1usize, 1usize), (1, 2), (2, 1), (2, 2), (2, 3), (3, 2), (0, 2), (2, 0), (0, 0)] {
        for order in ORDERS {
            for rows in [true, false] {
                for l in 1..=exh_len {
                    let mut seqs: Vec<Vec<Call>> = Vec::new();
                    enumerate_calls(l, 2, &mut |c| seqs.push(c.to_vec()));
                    for s in seqs {
                        // only maximal sequences of each length; element type in rotation
                        match (s.len() + nr + nc) % 3 {
                            0 => run_case::<u32>(out, order, nr, nc, rows, &s),
                            1 => run_case::<[u64; 3]>(out, order, nr, nc, rows, &s),
                            _ => run_case::<u8>(out, order, nr, nc, rows, &s),
                        }
                        out.count("sequences:exhaustive");
                    }
                }
            }
        }
    }
    // long random sequences on all shapes up to 5x5, all element layouts
    let n = if tier == Tier::Quick { 400 } else { 5000 };
    for k in 0..n {
        let (nr, nc) = (rng.below(6), rng.below(6));
        let order = *rng.pick(&ORDERS);
        let rows = rng.coin();
        let ncalls = 10 + rng.below(if tier == Tier::Quick { 60 } else { 200 });
        let calls = random_calls(rng, ncalls);
        match k % 8 {
            0 => run_case::<u8>(out, order, nr, nc, rows, &calls),
            1 => run_case::<u32>(out, order, nr, nc, rows, &calls),
            2 => run_case::<[u64; 3]>(out, order, nr, nc, rows, &calls),
            3 => run_case::<()>(out, order, nr, nc, rows, &calls),
            4 => run_case::<Z2>(out, order, nr, nc, rows, &calls),
            5 => run_case::<Z4>(out, order, nr, nc, rows, &calls),
            6 => run_case::<Z8>(out, order, nr, nc, rows, &calls),
            _ => run_case::<Tok>(out, order, nr, nc, rows, &calls),
        }
        out.count("sequences:random");
    }
    huge_zst::<()>(out, 1);
    huge_zst::<Z2>(out, 2);
    huge_zst::<Z4>(out, 4);
    huge_zst::<Z8>(out, 8);
    // the iterators on a matrix that survived a caught panic inside `resize` (a destructor of the cut-off tail or a
    // `T::default()` of the new tail panicking at callback k): what they hand out must still be elements of that matrix
    for (nr, nc, tr, tc) in [(3usize, 2usize, 1usize, 1usize), (2, 3, 2, 1), (2, 2, 3, 3), (3, 3, 0, 2), (1, 4, 2, 4)] {
        for order in ORDERS {
            let callbacks = (tr * tc).abs_diff(nr * nc) as u64;
            for k in 0..callbacks.min(3) {
                out.case(&format!("survivor of a resize {nr}x{nc} -> {tr}x{tc} order={} fault at callback {k}", ord_ch(order)));
                let mut w = crate::hist::World::<Tok>::new(out);
                w.new_matrix(out, 0, order, nr, nc, 100);
                w.fresize(out, 0, k, tr, tc);
                w.views(out, 0, "viewsmut", "rows", "FB", "B");
                w.views(out, 0, "viewsmut", "cols", "-", "-");
                w.drop_reg(out, 0);
                out.count("sequences:survivor");
                out.nontrivial();
            }
        }
    }
    format!(
        "exhaustive core: every call sequence of length 1..={exh_len} over {{outer next/next_back/len, inner_i next/next_back/len (i < 2)}} on the shapes 1x1, 1x2, 2x1, 2x2, 2x3, 3x2, 0x2, 2x0, 0x0 x both orders x both axes (element sizes 1, 4, 24 in rotation); \
         {n} random call sequences (length 10..70 quick / 10..210 thorough, including calls on iterators not yet produced) on all shapes 0..=5 x 0..=5 with element layouts (size, align) in {{(0,1),(0,2),(0,4),(0,8),(1,1),(4,4),(24,8),(40,8)}}; \
         the mutable views of matrices that survived a caught panic at callback 0..2 of a shrinking / growing `resize` (5 shape pairs x both orders); zero-sized element matrices with extents up to usize::MAX (1 x MAX, MAX x 1, 3 x MAX/3, MAX/2 x 2, 2^32 x 2^31) for alignments 1, 2, 4, 8. All inner iterators are kept alive. \
         Observations: yielded element offset, len(), and every lower/upper pointer value formed (verif-hooks recorder). Oracle: independent deque-of-deques; every address is the expected element, never twice; len() = items to come; every recorded pointer inside [base, base+len*size] and aligned. Every case is non-trivial"
    )
}
