//! C06: all row / column view families against each other and the logical matrix.

use crate::common::*;
use crate::hist::*;
use crate::tok::*;

fn pats(n: usize) -> Vec<String> {
    vec!["-".to_string(), "B".repeat(n.max(1)), "FB".repeat(n / 2 + 1), "BBF".repeat(n / 3 + 1)]
}

fn shapes<E: Elem>(out: &mut Out, bound: usize, rng: &mut Rng, sample: usize) {
    for nr in 0..=bound {
        for nc in 0..=bound {
            for order in ORDERS {
                out.case(&format!("views elem={} class={} shape={nr}x{nc}{}", E::KIND, shape_class(nr, nc), ord_ch(order)));
                out.count(&format!("shape-class:{}", shape_class(nr, nc)));
                let mut w = World::<E>::new(out);
                w.new_matrix(out, 0, order, nr, nc, 1);
                for axis in ["rows", "cols"] {
                    let (al, vl) = if axis == "rows" { (nr, nc) } else { (nc, nr) };
                    for op in pats(al) {
                        for ip in pats(vl) {
                            if sample > 1 && rng.below(sample) != 0 && !(op == "-" && ip == "-") { continue; }
                            w.views(out, 0, "views", axis, &op, &ip);
                            w.views(out, 0, "viewsmut", axis, &op, &ip);
                            out.count("families:outer");
                        }
                    }
                }
                // every vector (and one past the end) through iterator adaptors, all four families
                for axis in ["rows", "cols"] {
                    let al = if axis == "rows" { nr } else { nc };
                    for k in 0..=al {
                        for fam in ["views", "viewsmut", "nth", "nthmut"] {
                            w.adapt(out, 0, fam, axis, k);
                        }
                    }
                }
                for kind in ["row", "col", "row_mut", "col_mut"] {
                    let extent = if kind.starts_with("row") { nr } else { nc };
                    let vl = if kind.starts_with("row") { nc } else { nr };
                    let mut ns: Vec<usize> = (0..=extent + 1).collect();
                    ns.extend([usize::MAX, usize::MAX / 2 + 1, 1 << 32]);
                    for n in ns {
                        for ip in pats(vl) {
                            if sample > 1 && n < extent && rng.below(sample) != 0 && ip != "-" { continue; }
                            if n >= extent && ip != "-" { continue; }
                            w.nth(out, 0, kind, n, &ip);
                        }
                    }
                }
                w.drop_reg(out, 0);
                if nr + nc > 0 { out.nontrivial(); }
            }
        }
    }
}

pub fn run_c06(out: &mut Out, rng: &mut Rng, tier: Tier) -> String {
    ledger_reset();
    let (bound, sample) = if tier == Tier::Quick { (4, 2) } else { (5, 1) };
    shapes::<Tok>(out, bound, rng, sample);
    shapes::<u8>(out, 3, rng, 2);
    shapes::<()>(out, 3, rng, 2);
    for &(nr, nc) in LARGE[..3].iter().chain(VERY_LARGE.iter()) {
        for order in ORDERS {
            out.case(&format!("views large shape={nr}x{nc}{}", ord_ch(order)));
            out.nontrivial();
            let mut w = World::<Tok>::new(out);
            w.new_matrix(out, 0, order, nr, nc, 1);
            for axis in ["rows", "cols"] {
                w.views(out, 0, "views", axis, "-", "-");
                w.views(out, 0, "viewsmut", axis, "B", "FB");
                let al = if axis == "rows" { nr } else { nc };
                for fam in ["views", "viewsmut", "nth", "nthmut"] { w.adapt(out, 0, fam, axis, al - 1); w.adapt(out, 0, fam, axis, al); }
            }
            for kind in ["row", "col", "row_mut", "col_mut"] {
                let extent = if kind.starts_with("row") { nr } else { nc };
                w.nth(out, 0, kind, extent - 1, "FB");
                w.nth(out, 0, kind, extent, "-");
            }
            w.drop_reg(out, 0);
        }
    }
    shapes::<Z8>(out, 2, rng, 2);
    let s = snapshot();
    if s.double_drops > 0 || s.live != 0 {
        out.oracle_fail(&format!("ledger at the end of the run: {} tokens still live, {} double drops", s.live, s.double_drops));
    }
    out.exhaustive = sample == 1;
    format!(
        "every shape 0..={bound} x 0..={bound} (all shapes with exactly one zero dimension included) x both orders: the four outer families iter_rows / iter_cols / iter_rows_mut / iter_cols_mut, outer and inner iterators each consumed by the patterns front / back / alternating / back-back-front \
         (all pattern pairs in thorough, a 1/{sample} sample plus front-front in quick), and iter_nth_row / iter_nth_col / iter_nth_row_mut / iter_nth_col_mut for every n in 0..=extent+1 and usize::MAX, usize::MAX/2+1, 2^32; token, 1-byte, zero-sized (align 1 and 8) elements. \
         Every vector additionally through iterator adaptors on fresh iterators (nth, nth_back, skip + step_by, take + rev, rev + skip, last, count) in all four families. Oracle: exactly nrows / ncols vectors, len() before every call, every item is the element at its logical coordinate by value and by address (get()), IndexOutOfBounds exactly for invalid n. A case = one matrix with all its views"
    )
}
