//! C14: overwrite — all pairs of shapes (each dimension smaller / equal / larger independently,
//! degenerate ones included) x four order combinations, clone-counting tokens.

use crate::common::*;
use crate::hist::*;
use crate::tok::*;

fn pairs<E: Elem + Clone>(out: &mut Out, bound: usize) {
    for dr in 0..=bound {
        for dc in 0..=bound {
            for sr in 0..=bound {
                for sc in 0..=bound {
                    for dorder in ORDERS {
                        for sorder in ORDERS {
                            out.case(&format!(
                                "overwrite elem={} dest={dr}x{dc}{} src={sr}x{sc}{} rows:{} cols:{}",
                                E::KIND, ord_ch(dorder), ord_ch(sorder),
                                if sr < dr { "smaller" } else if sr == dr { "equal" } else { "larger" },
                                if sc < dc { "smaller" } else if sc == dc { "equal" } else { "larger" }
                            ));
                            out.count(&format!("orders:{}{}", ord_ch(dorder), ord_ch(sorder)));
                            out.count(&format!("dest-class:{}", shape_class(dr, dc)));
                            out.count(&format!("src-class:{}", shape_class(sr, sc)));
                            let mut w = World::<E>::new(out);
                            w.new_matrix(out, 0, dorder, dr, dc, 100);
                            w.new_matrix(out, 1, sorder, sr, sc, 500);
                            w.overwrite(out, 0, 1);
                            w.drop_reg(out, 0);
                            w.drop_reg(out, 1);
                            if dr.min(sr) * dc.min(sc) > 1 {
                                out.nontrivial();
                            }
                        }
                    }
                }
            }
        }
    }
}

/// elements that are themselves matrices (heap-owning, with a storage order of their own): the copied
/// elements must be clones of the source's elements — logically equal, same order — and the others untouched
fn nested(out: &mut Out) {
    use matreex::{Matrix, Order};
    let inner = |o: Order, nr: usize, nc: usize, base: u32| mk(o, nr, nc, |k| base + k as u32);
    for dorder in ORDERS {
        for sorder in ORDERS {
            for (dio, sio) in [(Order::RowMajor, Order::ColMajor), (Order::ColMajor, Order::RowMajor), (Order::RowMajor, Order::RowMajor)] {
                out.case(&format!("overwrite nested outer={}{} inner={}{}", ord_ch(dorder), ord_ch(sorder), ord_ch(dio), ord_ch(sio)));
                out.nontrivial();
                let op = format!("oracle overwrite-nested {} {} {} {}", ord_ch(dorder), ord_ch(sorder), ord_ch(dio), ord_ch(sio));
                out.announce(&op);
                let mut dest: Matrix<Matrix<u32>> = mk(dorder, 3, 2, |k| inner(dio, 1 + k % 2, 2, 100 * k as u32));
                let src: Matrix<Matrix<u32>> = mk(sorder, 2, 3, |k| inner(sio, 2, 3, 1000 + 10 * k as u32));
                let before = dest.clone();
                let res = catch(|| { dest.overwrite(&src); });
                if res.is_none() { out.oracle_fail(&format!("{op}: panicked")); }
                for r in 0..3 { for c in 0..2 {
                    if r < 2 && c < 2 {
                        if dest[(r, c)] != src[(r, c)] || dest[(r, c)].order() != src[(r, c)].order() || dest[(r, c)].iter_elements().ne(src[(r, c)].iter_elements()) {
                            out.oracle_fail(&format!("{op}: element ({r}, {c}) of the destination is not a clone of the source's element: {:?} ({:?}) vs {:?} ({:?})", dest[(r, c)], dest[(r, c)].order(), src[(r, c)], src[(r, c)].order()));
                        }
                    } else if dest[(r, c)] != before[(r, c)] || dest[(r, c)].order() != before[(r, c)].order() {
                        out.oracle_fail(&format!("{op}: element ({r}, {c}) outside the overlap changed"));
                    }
                } }
                if (dest.nrows(), dest.ncols(), dest.order()) != (3, 2, dorder) { out.oracle_fail(&format!("{op}: destination shape / order changed")); }
                out.observe("ok");
            }
        }
    }
}

pub fn run_c14(out: &mut Out, _rng: &mut Rng, tier: Tier) -> String {
    ledger_reset();
    let bound = if tier == Tier::Quick { 3 } else { 4 };
    pairs::<Tok>(out, bound);
    pairs::<()>(out, 2);
    pairs::<u32>(out, 2);
    pairs::<Cm>(out, 2);
    for ((dr, dc), (sr, sc)) in [((64usize, 65usize), (65usize, 64usize)), ((33, 32), (64, 65)), ((64, 65), (64, 65)), ((3, 1400), (1, 4099)), ((4099, 1), (3, 1400)), ((257, 300), (300, 257)), ((257, 300), (257, 300))] {
        for dorder in ORDERS {
            for sorder in ORDERS {
                out.case(&format!("overwrite-large dest={dr}x{dc}{} src={sr}x{sc}{}", ord_ch(dorder), ord_ch(sorder)));
                out.nontrivial();
                let mut w = World::<Tok>::new(out);
                w.new_matrix(out, 0, dorder, dr, dc, 1);
                w.new_matrix(out, 1, sorder, sr, sc, 100000);
                w.overwrite(out, 0, 1);
                w.drop_reg(out, 0);
                w.drop_reg(out, 1);
            }
        }
    }
    nested(out);
    out.led_mode = true;
    pairs::<Zd>(out, 2);
    out.led_mode = false;
    let z = snapshot();
    if z.zst_live != 0 || z.zst_overdrops != 0 {
        out.oracle_fail(&format!("zero-sized elements with drop glue: created - dropped = {} after all matrices were dropped, drops beyond creations = {}", z.zst_live, z.zst_overdrops));
    }
    let s = snapshot();
    if s.double_drops > 0 || s.live != 0 {
        out.oracle_fail(&format!("ledger at the end of the run: {} tokens still live, {} double drops", s.live, s.double_drops));
    }
    out.exhaustive = true;
    format!(
        "exhaustive: every pair of shapes 0..={bound} x 0..={bound} (each dimension smaller/equal/larger independently, degenerate included) x the four storage-order combinations with clone-counting tokens \
         (a clone is visible as a primed payload and in the ledger), and pairs up to 2x2 for zero-sized elements, 4-byte Copy elements and an element type with a non-trivial Clone but no drop glue. Oracle: every coordinate of dest and of src against an independent row-of-rows reference \
         (block = clones of src, rest of dest and all of src unchanged), shape and order of both unchanged, clones = drops = block size. A case is non-trivial when the copied block has more than one element"
    )
}
