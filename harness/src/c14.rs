//! C14: overwrite — all pairs of shapes (each dimension smaller / equal / larger independently,
//! degenerate ones included) x four order combinations, clone-counting tokens.

use crate::common::*;
use crate::hist::*;
use crate::tok::*;

fn pairs<E: Elem + Clone>(out: &mut Out, bound: usize) {
    for dr in 0..=bound {
        for dc in 0..=bound {
            for sr in 0..=bound {
                for sc in 0..=bound {
                    for dorder in ORDERS {
                        for sorder in ORDERS {
                            out.case(&format!(
                                "overwrite elem={} dest={dr}x{dc}{} src={sr}x{sc}{} rows:{} cols:{}",
                                E::KIND, ord_ch(dorder), ord_ch(sorder),
                                if sr < dr { "smaller" } else if sr == dr { "equal" } else { "larger" },
                                if sc < dc { "smaller" } else if sc == dc { "equal" } else { "larger" }
                            ));
                            out.count(&format!("orders:{}{}", ord_ch(dorder), ord_ch(sorder)));
                            out.count(&format!("dest-class:{}", shape_class(dr, dc)));
                            out.count(&format!("src-class:{}", shape_class(sr, sc)));
                            let mut w = World::<E>::new(out);
                            w.new_matrix(out, 0, dorder, dr, dc, 100);
                            w.new_matrix(out, 1, sorder, sr, sc, 500);
                            w.overwrite(out, 0, 1);
                            w.drop_reg(out, 0);
                            w.drop_reg(out, 1);
                            if dr.min(sr) * dc.min(sc) > 1 {
                                out.nontrivial();
                            }
                        }
                    }
                }
            }
        }
    }
}

pub fn run_c14(out: &mut Out, _rng: &mut Rng, tier: Tier) -> String {
    ledger_reset();
    let bound = if tier == Tier::Quick { 3 } else { 4 };
    pairs::<Tok>(out, bound);
    pairs::<()>(out, 2);
    pairs::<u32>(out, 2);
    pairs::<Cm>(out, 2);
    for ((dr, dc), (sr, sc)) in [((64usize, 65usize), (65usize, 64usize)), ((33, 32), (64, 65)), ((64, 65), (64, 65)), ((3, 1400), (1, 4099)), ((4099, 1), (3, 1400))] {
        for dorder in ORDERS {
            for sorder in ORDERS {
                out.case(&format!("overwrite-large dest={dr}x{dc}{} src={sr}x{sc}{}", ord_ch(dorder), ord_ch(sorder)));
                out.nontrivial();
                let mut w = World::<Tok>::new(out);
                w.new_matrix(out, 0, dorder, dr, dc, 1);
                w.new_matrix(out, 1, sorder, sr, sc, 100000);
                w.overwrite(out, 0, 1);
                w.drop_reg(out, 0);
                w.drop_reg(out, 1);
            }
        }
    }
    out.led_mode = true;
    pairs::<Zd>(out, 2);
    out.led_mode = false;
    let z = snapshot();
    if z.zst_live != 0 || z.zst_overdrops != 0 {
        out.oracle_fail(&format!("zero-sized elements with drop glue: created - dropped = {} after all matrices were dropped, drops beyond creations = {}", z.zst_live, z.zst_overdrops));
    }
    let s = snapshot();
    if s.double_drops > 0 || s.live != 0 {
        out.oracle_fail(&format!("ledger at the end of the run: {} tokens still live, {} double drops", s.live, s.double_drops));
    }
    out.exhaustive = true;
    format!(
        "exhaustive: every pair of shapes 0..={bound} x 0..={bound} (each dimension smaller/equal/larger independently, degenerate included) x the four storage-order combinations with clone-counting tokens \
         (a clone is visible as a primed payload and in the ledger), and pairs up to 2x2 for zero-sized elements, 4-byte Copy elements and an element type with a non-trivial Clone but no drop glue. Oracle: every coordinate of dest and of src against an independent row-of-rows reference \
         (block = clones of src, rest of dest and all of src unchanged), shape and order of both unchanged, clones = drops = block size. A case is non-trivial when the copied block has more than one element"
    )
}
