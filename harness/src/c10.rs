//! C10: swaps — exhaustive over shapes, orders, index pairs (valid, equal, invalid), element
//! sizes 0 / 1 / 4 / 24 / token; element swaps with plain and wrapping indices.

use crate::common::*;
use crate::hist::*;
use crate::tok::*;

fn vec_swaps<E: Elem>(out: &mut Out, bound: usize) {
    for nr in 0..=bound {
        for nc in 0..=bound {
            for order in ORDERS {
                out.case(&format!("vectors elem={} class={} shape={nr}x{nc} order={}", E::KIND, shape_class(nr, nc), ord_ch(order)));
                out.count(&format!("shape-class:{}", shape_class(nr, nc)));
                out.count(&format!("elem:{}", E::KIND));
                let mut w = World::<E>::new(out);
                w.new_matrix(out, 0, order, nr, nc, 1);
                for (name, extent) in [("swap_rows", nr), ("swap_cols", nc)] {
                    let mut idx: Vec<usize> = (0..=extent + 1).collect();
                    idx.push(usize::MAX);
                    for &a in &idx {
                        for &b in &idx {
                            w.swap_vecs(out, 0, name, a, b);
                        }
                    }
                }
                w.drop_reg(out, 0);
                if nr * nc > 1 {
                    out.nontrivial();
                }
            }
        }
    }
}

fn elem_swaps<E: Elem>(out: &mut Out, bound: usize, rng: &mut Rng, sample: usize) {
    for nr in 0..=bound {
        for nc in 0..=bound {
            for order in ORDERS {
                out.case(&format!("elements elem={} class={} shape={nr}x{nc} order={}", E::KIND, shape_class(nr, nc), ord_ch(order)));
                let mut w = World::<E>::new(out);
                w.new_matrix(out, 0, order, nr, nc, 1);
                // all plain coordinate pairs in 0..=extent (one step out of range included)
                let mut coords: Vec<(char, isize, isize)> = Vec::new();
                for i in 0..=nr as isize {
                    for j in 0..=nc as isize {
                        coords.push(('p', i, j));
                    }
                }
                // wrapping indices from a window around zero and extremes
                for i in [-(nr as isize) - 1, -1, 0, nr as isize, isize::MIN, isize::MAX] {
                    for j in [-(nc as isize) - 1, -1, 0, nc as isize + 1] {
                        coords.push(('w', i, j));
                    }
                }
                // caller-defined index types with inconsistent accessors (kind 's'): all plain pairs
                if nr * nc > 0 && nr * nc <= 6 {
                    for i in 0..=nr as isize {
                        for j in 0..=nc as isize {
                            for i2 in 0..nr as isize {
                                for j2 in 0..nc as isize {
                                    w.swap_elems(out, 0, ('s', i, j), ('s', i2, j2));
                                    w.swap_elems(out, 0, ('p', i2, j2), ('s', i, j));
                                }
                            }
                        }
                    }
                }
                for (n, &a) in coords.iter().enumerate() {
                    for (k, &b) in coords.iter().enumerate() {
                        if sample > 1 && (n * 31 + k) % sample != 0 && rng.below(sample) != 0 {
                            continue;
                        }
                        w.swap_elems(out, 0, a, b);
                    }
                }
                w.drop_reg(out, 0);
                if nr * nc > 1 {
                    out.nontrivial();
                }
            }
        }
    }
}

/// zero-sized elements, extents near usize::MAX (the strided loop must not overflow)
fn huge_zst(out: &mut Out) {
    out.case("vectors elem=unit huge");
    out.nontrivial();
    for (a, b) in [(1usize, usize::MAX), (2, usize::MAX / 2), (3, usize::MAX / 3), (1, usize::MAX - 1)] {
        for order in ORDERS {
            // the strided loop runs `major` times: keep the major extent small
            let (nr, nc) = if order == matreex::Order::RowMajor { (a, b) } else { (b, a) };
            let mut v: Vec<()> = Vec::new();
            unsafe { v.set_len(a * b) };
            let mut m = mk_from(order, nr, nc, v);
            for (name, x, y) in [("swap_rows", 0usize, 0usize), ("swap_cols", 5, 7), ("swap_cols", 0, usize::MAX - 2), ("swap_rows", 0, 1), ("swap_rows", 2, 2), ("swap_cols", usize::MAX, 0)] {
                let op = format!("zswap {name} {} {nr} {nc} {x} {y}", ord_ch(order));
                out.announce(&op);
                let res = catch(|| if name == "swap_rows" { m.swap_rows(x, y).map(|_| ()) } else { m.swap_cols(x, y).map(|_| ()) });
                let obs = match res {
                    None => "panic".to_string(),
                    Some(Ok(())) => "ok".to_string(),
                    Some(Err(e)) => format!("err {}", err_name(e)),
                };
                let extent = if name == "swap_rows" { nr } else { nc };
                let want = if x < extent && y < extent { "ok" } else { "err IndexOutOfBounds" };
                if obs != want {
                    out.oracle_fail(&format!("{op}: expected `{want}`, implementation gave `{obs}`"));
                }
                out.observe(&obs);
            }
        }
    }
}

pub fn run_c10(out: &mut Out, rng: &mut Rng, tier: Tier) -> String {
    ledger_reset();
    let (b1, b2, sample) = if tier == Tier::Quick { (4, 2, 3) } else { (5, 3, 1) };
    vec_swaps::<Tok>(out, b1);
    vec_swaps::<()>(out, b1.min(3));
    vec_swaps::<u8>(out, b1.min(3));
    vec_swaps::<u32>(out, b1.min(3));
    vec_swaps::<[u64; 3]>(out, b1.min(3));
    elem_swaps::<Tok>(out, b2, rng, sample);
    elem_swaps::<()>(out, 2, rng, 4);
    elem_swaps::<u32>(out, 2, rng, 4);
    out.led_mode = true;
    vec_swaps::<Zd>(out, 2);
    elem_swaps::<Zd>(out, 2, rng, 4);
    out.led_mode = false;
    let z = snapshot();
    if z.zst_live != 0 || z.zst_overdrops != 0 {
        out.oracle_fail(&format!("zero-sized elements with drop glue: created - dropped = {} after all matrices were dropped, drops beyond creations = {}", z.zst_live, z.zst_overdrops));
    }
    huge_zst(out);
    // beyond the size thresholds at which an implementation might switch algorithms
    for &(nr, nc) in LARGE.iter().chain(VERY_LARGE.iter()) {
        for order in ORDERS {
            out.case(&format!("large swaps shape={nr}x{nc} order={}", ord_ch(order)));
            out.nontrivial();
            let mut w = World::<Tok>::new(out);
            w.new_matrix(out, 0, order, nr, nc, 1);
            for (a, b) in [(0, nr - 1), (nr / 2, nr / 2), (nr - 1, nr), (1 % nr, nr - 1)] { w.swap_vecs(out, 0, "swap_rows", a, b); }
            for (a, b) in [(0, nc - 1), (nc / 2, nc / 2), (nc, 0), (1 % nc, nc - 1)] { w.swap_vecs(out, 0, "swap_cols", a, b); }
            w.swap_elems(out, 0, ('p', 0, 0), ('p', nr as isize - 1, nc as isize - 1));
            w.swap_elems(out, 0, ('w', -1, -1), ('p', 0, nc as isize - 1));
            w.drop_reg(out, 0);
        }
    }
    let s = snapshot();
    if s.double_drops > 0 || s.live != 0 {
        out.oracle_fail(&format!("ledger at the end of the run: {} tokens still live, {} double drops", s.live, s.double_drops));
    }
    out.exhaustive = sample == 1;
    format!(
        "swap_rows/swap_cols: every shape 0..={b1} x 0..={b1} (tokens; 0..=3 for element sizes 0, 1, 4, 24) x both orders x all (m, n) in (0..=extent+1 and usize::MAX)^2 including m == n; \
         swap(i, j): every shape 0..={b2} x 0..={b2} x both orders x pairs of plain coordinates in 0..=extent and wrapping indices (window and isize extremes), all pairs (thorough) or a 1/{sample} sample (quick); \
         zero-sized elements with extents up to usize::MAX. Oracle after every call: independent row-of-rows reference through get(), Ok/Err(IndexOutOfBounds) exactly by validity, failed calls change nothing, ledger silent. \
         A case = one matrix with all its calls; non-trivial when it has more than one element"
    )
}
