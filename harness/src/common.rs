//! Shared infrastructure of the correspondence harness: one PRNG, the ops / observation writers,
//! distribution counters, distinct-case accounting, oracle failure reporting.

use std::collections::{BTreeMap, BTreeSet};
use std::fs::File;
use std::hash::{Hash, Hasher};
use std::io::{BufWriter, Write};
use std::path::{Path, PathBuf};

use matreex::{Matrix, Order};

/// splitmix64: every random choice of a run derives from `VERIF_SEED`.
pub struct Rng(pub u64);

impl Rng {
    pub fn next(&mut self) -> u64 {
        self.0 = self.0.wrapping_add(0x9E37_79B9_7F4A_7C15);
        let mut z = self.0;
        z = (z ^ (z >> 30)).wrapping_mul(0xBF58_476D_1CE4_E5B9);
        z = (z ^ (z >> 27)).wrapping_mul(0x94D0_49BB_1331_11EB);
        z ^ (z >> 31)
    }
    pub fn below(&mut self, n: usize) -> usize {
        if n == 0 { 0 } else { (self.next() % n as u64) as usize }
    }
    pub fn pick<'a, T>(&mut self, xs: &'a [T]) -> &'a T {
        &xs[self.below(xs.len())]
    }
    pub fn coin(&mut self) -> bool {
        self.next() & 1 == 1
    }
}

#[derive(Clone, Copy, PartialEq, Eq, Debug)]
pub enum Tier {
    Quick,
    Thorough,
}

pub struct Out {
    dir: PathBuf,
    ops: BufWriter<File>,
    obs: BufWriter<File>,
    pub dist: BTreeMap<String, u64>,
    distinct: BTreeSet<u64>,
    pub evaluations: u64,
    pub oracle_failures: Vec<String>,
    cur_case: String,
    cur_nontrivial: bool,
    case_no: u64,
    samples: Vec<String>,
    pub exhaustive: bool,
    /// C01: every operation line is prefixed with `L ` and its observation is followed by the
    /// measured ledger delta (fresh tokens created, tokens dropped) of the operation
    pub led_mode: bool,
    led_before: (u64, u64),
    led_pending: bool,
}

impl Out {
    pub fn new(dir: &Path) -> Self {
        std::fs::create_dir_all(dir).unwrap();
        Out {
            dir: dir.to_path_buf(),
            ops: BufWriter::new(File::create(dir.join("ops.txt")).unwrap()),
            obs: BufWriter::new(File::create(dir.join("impl.txt")).unwrap()),
            dist: BTreeMap::new(),
            distinct: BTreeSet::new(),
            evaluations: 0,
            oracle_failures: Vec::new(),
            cur_case: String::new(),
            cur_nontrivial: false,
            case_no: 0,
            samples: Vec::new(),
            exhaustive: false,
            led_mode: false,
            led_before: (0, 0),
            led_pending: false,
        }
    }

    pub fn count(&mut self, key: &str) {
        *self.dist.entry(key.to_string()).or_insert(0) += 1;
    }

    fn close_case(&mut self) {
        if !self.cur_case.is_empty() {
            if self.cur_nontrivial {
                let mut h = std::collections::hash_map::DefaultHasher::new();
                self.cur_case.hash(&mut h);
                self.distinct.insert(h.finish());
            }
            if self.samples.len() < 3 || (self.case_no % 997 == 0 && self.samples.len() < 8) {
                self.samples.push(self.cur_case.clone());
            }
        }
        self.cur_case.clear();
        self.cur_nontrivial = false;
    }

    /// start a new case; `tags` is free text (shape class etc.) echoed by the driver
    pub fn case(&mut self, tags: &str) {
        self.close_case();
        self.case_no += 1;
        let line = format!("# case {} {}", self.case_no, tags);
        writeln!(self.ops, "{line}").unwrap();
        writeln!(self.obs, "{line}").unwrap();
        // flushed so that a crash (abort on a UB check) can be attributed to the case
        self.ops.flush().unwrap();
        self.obs.flush().unwrap();
    }

    /// announce an operation *before* running it (so an abort is attributable)
    pub fn announce(&mut self, op: &str) {
        let op_owned;
        let op = if self.led_mode && !op.starts_with("elem ") {
            let s = crate::tok::snapshot();
            self.led_before = (s.created + s.cloned + s.defaults, s.dropped);
            self.led_pending = true;
            op_owned = format!("L {op}");
            op_owned.as_str()
        } else {
            op
        };
        writeln!(self.ops, "{op}").unwrap();
        self.ops.flush().unwrap();
        self.cur_case.push_str(op);
        self.cur_case.push('\n');
        self.evaluations += 1;
    }

    /// the implementation's canonical observation for the operation just announced
    pub fn observe(&mut self, obs: &str) {
        debug_assert!(!obs.contains('\n'));
        if self.led_pending {
            self.led_pending = false;
            let s = crate::tok::snapshot();
            let now = (s.created + s.cloned + s.defaults, s.dropped);
            writeln!(self.obs, "{obs} | led +{} -{}", now.0 - self.led_before.0, now.1 - self.led_before.1).unwrap();
        } else {
            writeln!(self.obs, "{obs}").unwrap();
        }
    }

    pub fn op(&mut self, op: &str, obs: &str) {
        self.announce(op);
        self.observe(obs);
    }

    pub fn nontrivial(&mut self) {
        self.cur_nontrivial = true;
    }

    /// the property's own oracle failed on the implementation: a concrete failing input
    pub fn oracle_fail(&mut self, what: &str) {
        let msg = format!("case {}: {}", self.case_no, what);
        if self.oracle_failures.len() < 50 {
            // also on disk at once: a later crash of the process must not lose the finding
            use std::io::Write as _;
            if let Ok(mut f) = std::fs::OpenOptions::new().create(true).append(true).open(self.dir.join("oracle.txt")) {
                let _ = writeln!(f, "{msg}");
            }
            self.oracle_failures.push(msg);
        }
    }

    pub fn finish(mut self, rule: &str) {
        self.close_case();
        self.ops.flush().unwrap();
        self.obs.flush().unwrap();
        let mut s = String::new();
        s.push_str("{\n");
        s.push_str(&format!(" \"evaluations\": {},\n", self.evaluations));
        s.push_str(&format!(" \"cases\": {},\n", self.case_no));
        s.push_str(&format!(" \"distinct_nontrivial\": {},\n", self.distinct.len()));
        s.push_str(&format!(" \"exhaustive\": {},\n", self.exhaustive));
        s.push_str(&format!(" \"rule\": {},\n", json_str(rule)));
        s.push_str(" \"distribution\": {");
        let mut first = true;
        for (k, v) in &self.dist {
            if !first {
                s.push(',');
            }
            first = false;
            s.push_str(&format!("\n  {}: {}", json_str(k), v));
        }
        s.push_str("\n },\n \"samples\": [");
        for (i, c) in self.samples.iter().enumerate() {
            if i > 0 {
                s.push(',');
            }
            s.push_str(&format!("\n  {}", json_str(c)));
        }
        s.push_str("\n ],\n \"oracle_failures\": [");
        for (i, c) in self.oracle_failures.iter().enumerate() {
            if i > 0 {
                s.push(',');
            }
            s.push_str(&format!("\n  {}", json_str(c)));
        }
        s.push_str("\n ]\n}\n");
        std::fs::write(self.dir.join("meta.json"), s).unwrap();
    }
}

pub fn json_str(s: &str) -> String {
    let mut o = String::from("\"");
    for ch in s.chars() {
        match ch {
            '"' => o.push_str("\\\""),
            '\\' => o.push_str("\\\\"),
            '\n' => o.push_str("\\n"),
            '\r' => o.push_str("\\r"),
            '\t' => o.push_str("\\t"),
            c if (c as u32) < 0x20 => o.push_str(&format!("\\u{:04x}", c as u32)),
            c => o.push(c),
        }
    }
    o.push('"');
    o
}

pub fn ord_ch(o: Order) -> char {
    match o {
        Order::RowMajor => 'R',
        Order::ColMajor => 'C',
    }
}

pub const ORDERS: [Order; 2] = [Order::RowMajor, Order::ColMajor];

/// shapes beyond the size thresholds at which an implementation might switch algorithms (1024,
/// 4096 elements): non-square, not multiples of the thresholds, long single vectors
/// one shape beyond the sizes (32768, 65536 elements) at which an implementation might hand the work
/// to a thread pool or a blocked algorithm
pub const VERY_LARGE: [(usize, usize); 1] = [(257, 300)];

pub const LARGE: [(usize, usize); 6] = [(64, 65), (63, 65), (3, 1400), (1, 4099), (4099, 1), (33, 32)];

/// Build, through the public API only, the matrix of the given order and logical shape whose
/// memory-order sequence is `f(0), f(1), …`.
pub fn mk<T>(order: Order, nrows: usize, ncols: usize, f: impl FnMut(usize) -> T) -> Matrix<T> {
    let data: Vec<T> = (0..nrows * ncols).map(f).collect();
    mk_from(order, nrows, ncols, data)
}

pub fn mk_from<T>(order: Order, nrows: usize, ncols: usize, data: Vec<T>) -> Matrix<T> {
    assert_eq!(data.len(), nrows * ncols);
    let mut m = Matrix::from_row(data);
    match order {
        Order::RowMajor => {
            m.reshape((nrows, ncols)).unwrap();
        }
        Order::ColMajor => {
            m.reshape((ncols, nrows)).unwrap();
            m.switch_order_without_rearrangement();
        }
    }
    assert_eq!(m.order(), order);
    assert_eq!((m.nrows(), m.ncols()), (nrows, ncols));
    m
}

pub fn shape_class(r: usize, c: usize) -> &'static str {
    fn gcd(a: usize, b: usize) -> usize {
        if b == 0 { a } else { gcd(b, a % b) }
    }
    if r == 0 && c == 0 {
        "0x0"
    } else if r == 0 {
        "0xc"
    } else if c == 0 {
        "rx0"
    } else if r == 1 && c == 1 {
        "1x1"
    } else if r == 1 {
        "1xn"
    } else if c == 1 {
        "nx1"
    } else if r == c {
        "square"
    } else if gcd(r, c) == 1 {
        "coprime"
    } else {
        "common-factor"
    }
}

/// run `f`, turning a panic into `None` (the default panic hook is silenced in `main`)
pub fn catch<R>(f: impl FnOnce() -> R) -> Option<R> {
    std::panic::catch_unwind(std::panic::AssertUnwindSafe(f)).ok()
}

pub fn err_name(e: matreex::Error) -> &'static str {
    use matreex::Error::*;
    match e {
        SizeOverflow => "SizeOverflow",
        SizeMismatch => "SizeMismatch",
        CapacityOverflow => "CapacityOverflow",
        LengthInconsistent => "LengthInconsistent",
        IndexOutOfBounds => "IndexOutOfBounds",
        SquareMatrixRequired => "SquareMatrixRequired",
        ShapeNotConformable => "ShapeNotConformable",
    }
}
