//! C07: metamorphic — every program of order-agnostic operations runs twice: with all operands
//! row-major, and with every operand independently row-/column-major and switch_order() inserted
//! at random points. Logical contents, shapes, errors, equality results and Display text must
//! coincide; each run is also compared with the model.

use crate::common::*;
use crate::hist::*;
use crate::tok::*;
use matreex::Order;

#[derive(Clone, Debug)]
enum Step {
    New(usize, usize, usize, usize), // reg, nrows, ncols, base
    Transpose(usize),
    SwapRows(usize, usize, usize),
    SwapCols(usize, usize, usize),
    SwapElems(usize, (char, isize, isize), (char, isize, isize)),
    Overwrite(usize, usize),
    Ew(usize, usize, usize, &'static str, &'static str),
    EwOp(usize, usize, usize, char, &'static str),
    EwOpAssign(usize, usize, char),
    Mul(usize, usize, usize, &'static str),
    ScGen(usize, usize, &'static str),
    Eq(usize, usize),
    Display(usize),
    Views(usize, &'static str),
    Nth(usize, &'static str, usize),
    Clone(usize, usize),
}

/// which registers a step needs (all must be alive), and which it defines / kills
fn needs(s: &Step) -> Vec<usize> {
    match s {
        Step::New(..) => vec![],
        Step::Transpose(r) | Step::SwapRows(r, ..) | Step::SwapCols(r, ..) | Step::SwapElems(r, ..) | Step::Display(r) | Step::Views(r, _) | Step::Nth(r, ..) => vec![*r],
        Step::Overwrite(a, b) | Step::Eq(a, b) | Step::EwOpAssign(a, b, _) => vec![*a, *b],
        Step::Ew(_, a, b, ..) | Step::EwOp(_, a, b, ..) | Step::Mul(_, a, b, _) => vec![*a, *b],
        Step::ScGen(_, a, _) => vec![*a],
        Step::Clone(_, a) => vec![*a],
    }
}

fn random_program(rng: &mut Rng, len: usize) -> Vec<Step> {
    let mut p = Vec::new();
    // three operands; shapes chosen so that many operations are conformable
    let n = 1 + rng.below(4);
    let k = 1 + rng.below(4);
    let dims = [(n, k), (n, k), (k, n), (rng.below(4), rng.below(4))];
    for r in 0..3 {
        let (a, b) = dims[if r == 2 { 2 + rng.below(2) } else { r }];
        // operand 1 is often logically equal to operand 0 (same contents, possibly another order)
        let base = if r == 1 && rng.coin() { 100 } else { 100 * (r + 1) };
        p.push(Step::New(r, a, b, base));
    }
    for _ in 0..len {
        let a = rng.below(3);
        let b = rng.below(3);
        let d = 3 + rng.below(2);
        let s = match rng.below(16) {
            0 => Step::Transpose(a),
            1 => Step::SwapRows(a, rng.below(4), rng.below(4)),
            2 => Step::SwapCols(a, rng.below(4), rng.below(4)),
            3 => Step::SwapElems(a, ('p', rng.below(4) as isize, rng.below(4) as isize), if rng.coin() { ('p', rng.below(4) as isize, rng.below(4) as isize) } else { ('w', rng.below(9) as isize - 4, rng.below(9) as isize - 4) }),
            4 => if a != b { Step::Overwrite(a, b) } else { Step::Transpose(a) },
            5 | 6 => if a != b { Step::Ew(d, a, b, *rng.pick(&["ref", "assign", "consume", "consume"]), *rng.pick(&["gen", "add", "sub", "mul"])) } else { Step::Display(a) },
            7 => if a != b { Step::EwOp(d, a, b, *rng.pick(&['+', '-']), *rng.pick(&["bb", "ob", "oo", "bo"])) } else { Step::Display(a) },
            8 => if a != b { Step::EwOpAssign(a, b, *rng.pick(&['+', '-'])) } else { Step::Display(a) },
            9 | 10 => if a != b { Step::Mul(d, a, b, *rng.pick(&["op_bb", "op_bb", "like_b"])) } else { Step::Display(a) },
            11 => Step::ScGen(d, a, "ref"),
            12 => Step::Eq(a, b),
            13 => Step::Display(a),
            14 => Step::Views(a, *rng.pick(&["rows", "cols"])),
            _ => Step::Nth(a, *rng.pick(&["row", "col", "row_mut", "col_mut"]), rng.below(5)),
        };
        p.push(s);
        // keep results usable: copy a result register back into an operand now and then
        if matches!(p.last(), Some(Step::Ew(..) | Step::EwOp(..) | Step::Mul(..) | Step::ScGen(..))) && rng.below(3) == 0 {
            p.push(Step::Clone(rng.below(3), d));
        }
    }
    p
}

/// run one program in one world; `mixed` = operands in random orders + switch_order inserted
fn run(out: &mut Out, prog: &[Step], mixed: bool, rng: &mut Rng) -> Vec<String> {
    let mut w = World::<Tok>::new(out);
    let mut logical = Vec::new();
    for s in prog {
        if needs(s).iter().any(|r| w.regs[*r].is_none()) {
            logical.push("skipped".to_string());
            continue;
        }
        if mixed {
            // switch_order() on a random live operand before the step
            if rng.below(3) == 0 {
                let live: Vec<usize> = (0..5).filter(|r| w.regs[*r].is_some()).collect();
                if !live.is_empty() {
                    let r = *rng.pick(&live);
                    w.order_op(out, r, "switch", None);
                }
            }
        }
        let obs_reg: Option<usize>;
        match s {
            Step::New(r, a, b, base) => {
                let order = if mixed { *rng.pick(&ORDERS) } else { Order::RowMajor };
                // the same logical matrix in either order: build row-major, then set the order
                w.new_matrix(out, *r, Order::RowMajor, *a, *b, *base);
                if order == Order::ColMajor { w.order_op(out, *r, "switch", None); }
                obs_reg = Some(*r);
            }
            Step::Transpose(r) => { w.order_op(out, *r, "transpose", None); obs_reg = Some(*r); }
            Step::SwapRows(r, x, y) => { w.swap_vecs(out, *r, "swap_rows", *x, *y); obs_reg = Some(*r); }
            Step::SwapCols(r, x, y) => { w.swap_vecs(out, *r, "swap_cols", *x, *y); obs_reg = Some(*r); }
            Step::SwapElems(r, i, j) => { w.swap_elems(out, *r, *i, *j); obs_reg = Some(*r); }
            Step::Overwrite(a, b) => { w.overwrite(out, *a, *b); obs_reg = Some(*a); }
            Step::Ew(d, a, b, variant, name) => {
                if *variant == "consume" {
                    // the consuming variant eats its left operand: work on a clone
                    w.clone_reg(out, 5, *a);
                    w.ew(out, *d, 5, *b, variant, name);
                    obs_reg = Some(*d);
                } else {
                    w.ew(out, *d, *a, *b, variant, name);
                    obs_reg = Some(if *variant == "assign" { *a } else { *d });
                }
            }
            Step::EwOp(d, a, b, sym, form) => {
                if *form == "bb" {
                    w.ewop(out, *d, *a, *b, *sym, form);
                } else {
                    // owned operands are consumed: work on clones
                    w.clone_reg(out, 5, *a);
                    w.clone_reg(out, 6, *b);
                    w.ewop(out, *d, 5, 6, *sym, form);
                    for r in [5, 6] { if w.regs[r].is_some() { w.drop_reg(out, r); } }
                }
                obs_reg = Some(*d);
            }
            Step::EwOpAssign(a, b, sym) => { w.ewopassign(out, *a, *b, *sym, "b"); obs_reg = Some(*a); }
            Step::Mul(d, a, b, kind) => {
                if *kind == "like_b" {
                    // multiplication_like_operation consumes its operands: work on clones
                    w.clone_reg(out, 5, *a);
                    w.clone_reg(out, 6, *b);
                    w.mul(out, *d, 5, 6, "like");
                } else {
                    w.mul(out, *d, *a, *b, kind);
                }
                obs_reg = Some(*d);
            }
            Step::ScGen(d, a, v) => { w.scgen(out, *d, *a, v); obs_reg = Some(*d); }
            Step::Eq(a, b) => {
                let v = w.eq(out, *a, *b);
                logical.push(format!("eq {:?}", v));
                continue;
            }
            Step::Display(r) => {
                let t = w.display(out, *r);
                logical.push(format!("display {:?}", t));
                continue;
            }
            Step::Views(r, axis) => {
                w.views(out, *r, "views", axis, "-", "-");
                w.views(out, *r, "viewsmut", axis, "B", "-");
                obs_reg = Some(*r);
            }
            Step::Nth(r, kind, n) => { w.nth(out, *r, kind, *n, "-"); obs_reg = Some(*r); }
            Step::Clone(d, a) => { w.clone_reg(out, *d, *a); obs_reg = Some(*d); }
        }
        // the logical observation after the step: the affected register's view (or its absence)
        match obs_reg {
            Some(r) if w.regs[r].is_some() => logical.push(w.lview(out, r)),
            _ => logical.push("none".to_string()),
        }
    }
    for r in 0..8 {
        if w.regs[r].is_some() { w.drop_reg(out, r); }
    }
    logical
}

/// the order-agnostic operations available for every element type, on zero-sized elements: the
/// same twin execution (row-major world vs mixed orders with inserted switches)
fn run_anon<E: Elem + Clone>(out: &mut Out, prog: &[Step], mixed: bool, rng: &mut Rng) -> Vec<String> {
    let mut w = World::<E>::new(out);
    let mut logical = Vec::new();
    for s in prog {
        if needs(s).iter().any(|r| w.regs[*r].is_none()) { logical.push("skipped".to_string()); continue; }
        if mixed && rng.below(3) == 0 {
            let live: Vec<usize> = (0..5).filter(|r| w.regs[*r].is_some()).collect();
            if !live.is_empty() { let r = *rng.pick(&live); w.order_op(out, r, "switch", None); }
        }
        let obs_reg = match s {
            Step::New(r, a, b, base) => {
                let order = if mixed { *rng.pick(&ORDERS) } else { Order::RowMajor };
                w.new_matrix(out, *r, Order::RowMajor, *a, *b, *base);
                if order == Order::ColMajor { w.order_op(out, *r, "switch", None); }
                *r
            }
            Step::Transpose(r) => { w.order_op(out, *r, "transpose", None); *r }
            Step::SwapRows(r, x, y) => { w.swap_vecs(out, *r, "swap_rows", *x, *y); *r }
            Step::SwapCols(r, x, y) => { w.swap_vecs(out, *r, "swap_cols", *x, *y); *r }
            Step::SwapElems(r, i, j) => { w.swap_elems(out, *r, *i, *j); *r }
            Step::Overwrite(a, b) => { w.overwrite(out, *a, *b); *a }
            Step::Views(r, axis) => { w.views(out, *r, "views", axis, "-", "-"); w.views(out, *r, "viewsmut", axis, "B", "-"); *r }
            Step::Nth(r, kind, n) => { w.nth(out, *r, kind, *n, "-"); *r }
            _ => { logical.push("skipped".to_string()); continue; }
        };
        if w.regs[obs_reg].is_some() { logical.push(w.lview_any(out, obs_reg)); } else { logical.push("none".to_string()); }
    }
    for r in 0..8 { if w.regs[r].is_some() { w.drop_reg(out, r); } }
    logical
}

fn twin_anon<E: Elem + Clone>(out: &mut Out, rng: &mut Rng, n: usize) {
    for k in 0..n {
        let prog: Vec<Step> = random_program(rng, 12).into_iter().filter(|s| matches!(s, Step::New(..) | Step::Transpose(..) | Step::SwapRows(..) | Step::SwapCols(..) | Step::SwapElems(..) | Step::Overwrite(..) | Step::Views(..) | Step::Nth(..))).collect();
        out.case(&format!("program {k} elem={} zero-sized={} world=row-major steps={}", E::KIND, E::ZST, prog.len()));
        let a = run_anon::<E>(out, &prog, false, rng);
        out.nontrivial();
        out.case(&format!("program {k} elem={} zero-sized={} world=mixed-orders steps={}", E::KIND, E::ZST, prog.len()));
        let b = run_anon::<E>(out, &prog, true, rng);
        out.nontrivial();
        for (i, (x, y)) in a.iter().zip(&b).enumerate() {
            if x != y {
                out.oracle_fail(&format!("program {k} on {} elements, step {i} ({:?}): logical observation differs between the row-major run and the mixed-order run: `{}` vs `{}`", E::KIND, prog[i], x.chars().take(160).collect::<String>(), y.chars().take(160).collect::<String>()));
                break;
            }
        }
    }
}

pub fn run_c07(out: &mut Out, rng: &mut Rng, tier: Tier) -> String {
    ledger_reset();
    let (n, len) = if tier == Tier::Quick { (250, 10) } else { (3000, 25) };
    for k in 0..n {
        let steps = 3 + rng.below(len);
        let prog = random_program(rng, steps);
        out.case(&format!("program {k} world=row-major steps={}", prog.len()));
        let a = run(out, &prog, false, rng);
        out.nontrivial();
        out.case(&format!("program {k} world=mixed-orders steps={}", prog.len()));
        let b = run(out, &prog, true, rng);
        out.nontrivial();
        for (i, (x, y)) in a.iter().zip(&b).enumerate() {
            if x != y {
                out.oracle_fail(&format!("program {k}, step {i} ({:?}): logical observation differs between the row-major run and the mixed-order run: `{}` vs `{}`", prog[i], x.chars().take(160).collect::<String>(), y.chars().take(160).collect::<String>()));
                break;
            }
        }
        for s in &prog {
            out.count(&format!("step:{}", format!("{:?}", s).split('(').next().unwrap()));
        }
    }
    // a fixed program on matrices beyond 1024 / 4096 elements
    for &(nr, nc) in LARGE[..2].iter().chain(VERY_LARGE.iter()) {
        let prog = vec![Step::New(0, nr, nc, 1), Step::New(1, nr, nc, 500000), Step::Transpose(0), Step::Transpose(0), Step::SwapRows(0, 0, nr - 1), Step::SwapCols(0, 1, nc - 1),
            Step::Ew(3, 0, 1, "ref", "gen"), Step::Ew(3, 0, 1, "assign", "add"), Step::Eq(0, 1), Step::Overwrite(1, 0), Step::Eq(0, 1), Step::Nth(0, "col_mut", nc - 1), Step::Views(1, "rows")];
        out.case(&format!("program large {nr}x{nc} world=row-major"));
        let a = run(out, &prog, false, rng);
        out.nontrivial();
        out.case(&format!("program large {nr}x{nc} world=mixed-orders"));
        let b = run(out, &prog, true, rng);
        out.nontrivial();
        for (i, (x, y)) in a.iter().zip(&b).enumerate() {
            if x != y { out.oracle_fail(&format!("large program {nr}x{nc}, step {i} ({:?}): logical observation differs between the row-major run and the mixed-order run", prog[i])); break; }
        }
    }
    // zero-sized element types (the unit type; a zero-sized type with counted construction / destruction)
    twin_anon::<()>(out, rng, n / 5);
    twin_anon::<Zd>(out, rng, n / 5);
    // exhaustive equality: every pair of shapes up to 3x3 (degenerate ones included) x four order
    // combinations x {same contents, one element different}; reflexivity and symmetry
    for ar in 0..=3usize {
        for ac in 0..=3usize {
            for br in 0..=3usize {
                for bc in 0..=3usize {
                    for ao in ORDERS {
                        for bo in ORDERS {
                            out.case(&format!("eq a={ar}x{ac}{} b={br}x{bc}{}", ord_ch(ao), ord_ch(bo)));
                            let mut w = World::<Tok>::new(out);
                            w.new_matrix(out, 0, Order::RowMajor, ar, ac, 1);
                            if ao == Order::ColMajor { w.order_op(out, 0, "switch", None); }
                            w.new_matrix(out, 1, Order::RowMajor, br, bc, 1);
                            if bo == Order::ColMajor { w.order_op(out, 1, "switch", None); }
                            let x = w.eq(out, 0, 1);
                            let y = w.eq(out, 1, 0);
                            if x != y { out.oracle_fail(&format!("== is not symmetric for {ar}x{ac}{} and {br}x{bc}{}", ord_ch(ao), ord_ch(bo))); }
                            if w.eq(out, 0, 0) != Some(true) { out.oracle_fail("== is not reflexive"); }
                            if br * bc > 0 {
                                // change one element of b
                                w.swap_elems(out, 1, ('p', 0, 0), ('p', (br - 1) as isize, (bc - 1) as isize));
                                w.eq(out, 0, 1);
                            }
                            if ar * ac > 0 {
                                // an element that is not equal to itself (like a NaN): the matrix is then
                                // equal to nothing — not to a matrix with the same payloads, not to itself
                                w.poke(out, 0, ar - 1, ac - 1, "nan");
                                if (ar, ac) == (br, bc) { w.poke(out, 1, ar - 1, ac - 1, "nan"); }
                                w.eq(out, 0, 1);
                                w.eq(out, 1, 0);
                                if w.eq(out, 0, 0) != Some(false) { out.oracle_fail("a matrix holding an element that is not equal to itself compares equal to itself"); }
                            }
                            w.drop_reg(out, 0);
                            w.drop_reg(out, 1);
                            if ar * ac > 1 { out.nontrivial(); }
                        }
                    }
                }
            }
        }
    }
    // products with a zero inner dimension (the early-exit path): the result takes lhs's order in all four order combinations
    for n in 0..=2 {
        for m in 0..=2 {
            crate::c11::one(out, n, 0, 0, m, &crate::c11::KINDS);
        }
    }
    // Display with multi-line / awkward element renderings: the same logical matrix in both orders
    for nr in 1..=3usize {
        for nc in 1..=3usize {
            for _ in 0..(if tier == Tier::Quick { 4 } else { 30 }) {
                out.case(&format!("display multi-line shape={nr}x{nc}"));
                let logical: Vec<Vec<usize>> = (0..nr).map(|_| (0..nc).map(|_| rng.below(crate::c20::PALETTE.len())).collect()).collect();
                crate::c20::one(out, nr, nc, &logical);
                out.nontrivial();
            }
        }
    }
    let s = snapshot();
    if s.double_drops > 0 || s.live != 0 {
        out.oracle_fail(&format!("ledger at the end of the run: {} tokens still live, {} double drops", s.live, s.double_drops));
    }
    format!(
        "{n} random programs (3..{} steps over three operands and two result registers; shapes n x k, n x k, k x n or arbitrary, n, k in 1..=4 so that most binary operations are conformable) of order-agnostic operations: \
         transpose, swap_rows/swap_cols/swap (plain and wrapping indices), overwrite, elementwise named/generic operations (by reference and assigning), + - += -= operators, the * operator and multiplication_like_operation, generic scalar operation, ==, Display, row/column views (all four outer families) and iter_nth_* . \
         Each program runs twice: all operands row-major; and every operand independently row-/column-major with switch_order() inserted before a third of the steps. After every step the logical view (extents + rows through get()), the outcome (Ok / error kind / panic), == results and Display text of the two runs must coincide (oracle); \
         Plus exhaustive ==: every pair of shapes up to 3x3 x four order combinations, equal and perturbed contents, symmetry and reflexivity. Both runs are compared line by line with the model, and every register is checked against the independent row-of-rows reference including the result's storage order (left operand's). Every case is non-trivial", 3 + len
    )
}
