//! C17: (a) type-level probes — in-process (auto traits leak through the opaque return types) and
//! real compile probes (`cargo check` of small client programs: accept / reject + diagnostic code);
//! (b) distinct rows / columns obtained from ONE iterator mutated concurrently on real threads:
//! ownership map thread -> addresses, final matrix vs the sequential run and vs the model.

use crate::common::*;
use matreex::iter::ExactSizeDoubleEndedIterator;
use matreex::{Matrix, Order};
use std::cell::Cell;
use std::collections::{BTreeMap, BTreeSet};
use std::marker::PhantomData;
use std::rc::Rc;
use std::sync::{Barrier, MutexGuard};

// ------------------------------------------------------------------ in-process probes
struct Probe<T>(PhantomData<T>);

trait Fallback {
    fn is_send(&self) -> bool { false }
    fn is_sync(&self) -> bool { false }
}
impl<T> Fallback for Probe<T> {}
impl<T: Send> Probe<T> { fn is_send(&self) -> bool { true } }
impl<T: Sync> Probe<T> { fn is_sync(&self) -> bool { true } }

fn probe<T>(_: &T) -> Probe<T> { Probe(PhantomData) }

/// `Sync` but not `Send` (like `MutexGuard<'_, u8>`)
#[derive(Default)]
#[allow(dead_code)]
struct SyncNotSend(u8, PhantomData<MutexGuard<'static, u8>>);

macro_rules! tprobes {
    ($out:expr, $cls:literal, $t:ty, $want:expr) => {{
        let mut matrix = Matrix::<$t>::with_default((3, 4)).unwrap();
        let res = {
            let mut rows = matrix.iter_rows_mut();
            let row = rows.next().unwrap();
            [("outer", "rows", probe(&rows).is_send(), probe(&rows).is_sync()), ("inner", "rows", probe(&row).is_send(), probe(&row).is_sync())]
        };
        let res2 = {
            let mut cols = matrix.iter_cols_mut();
            let col = cols.next().unwrap();
            [("outer", "cols", probe(&cols).is_send(), probe(&cols).is_sync()), ("inner", "cols", probe(&col).is_send(), probe(&col).is_sync())]
        };
        for (level, axis, s, y) in res.into_iter().chain(res2) {
            let op = format!("tprobe {level} {axis} {}", $cls);
            $out.announce(&op);
            // the property's oracle: Send iff the element is Send, Sync iff the element is Sync
            if (s, y) != $want {
                $out.oracle_fail(&format!("{op}: the iterator is Send={s} Sync={y} but the element type is Send={} Sync={}", $want.0, $want.1));
            }
            $out.count(&format!("tprobe:{}", $cls));
            $out.observe(&format!("send={s} sync={y}"));
        }
    }};
}

fn type_probes(out: &mut Out) {
    out.case("in-process auto-trait probes");
    out.nontrivial();
    // the probe itself on known types
    assert!(probe(&0u8).is_send() && probe(&0u8).is_sync());
    assert!(probe(&Cell::new(0u8)).is_send() && !probe(&Cell::new(0u8)).is_sync());
    assert!(!probe(&SyncNotSend::default()).is_send() && probe(&SyncNotSend::default()).is_sync());
    assert!(!probe(&Rc::new(0u8)).is_send() && !probe(&Rc::new(0u8)).is_sync());
    tprobes!(out, "SS", u64, (true, true));
    tprobes!(out, "S-", Cell<u32>, (true, false));
    tprobes!(out, "-Y", SyncNotSend, (false, true));
    tprobes!(out, "--", Rc<u8>, (false, false));
}

// ------------------------------------------------------------------ compile probes
const CLASSES: [(&str, &str, bool, bool); 4] = [
    ("SS", "u64", true, true),
    ("S-", "std::cell::Cell<u32>", true, false),
    ("-Y", "SyncNotSend", false, true),
    ("--", "std::rc::Rc<u8>", false, false),
];
const ACTIONS: [&str; 6] = ["send", "sync", "spawn", "share", "clone", "alias"];

fn probe_program(level: &str, axis: &str, ty: &str, action: &str) -> String {
    let call = if axis == "rows" { "iter_rows_mut" } else { "iter_cols_mut" };
    let bind = if level == "outer" {
        format!("    let it = m.{call}();\n")
    } else {
        format!("    let mut outer = m.{call}();\n    let it = outer.next().unwrap();\n")
    };
    let act = match action {
        "send" => "    need_send(&it);\n".to_string(),
        "sync" => "    need_sync(&it);\n".to_string(),
        // move the iterator to another thread
        "spawn" => "    std::thread::scope(|s| {\n        s.spawn(move || {\n            let it = it;\n            let _ = it.len();\n        });\n    });\n".to_string(),
        // share the iterator with another thread
        "share" => "    std::thread::scope(|s| {\n        s.spawn(|| {\n            let _ = it.len();\n        });\n    });\n".to_string(),
        "clone" => "    let dup = it.clone();\n    let _ = dup.len();\n".to_string(),
        // touch the matrix while the iterator (outer, or an inner one that outlives the outer) is alive
        _ => if level == "outer" { format!("    let second = m.{call}().len();\n    let _ = (it.len(), second);\n") } else { "    drop(outer);\n    m.clear();\n    let _ = it.len();\n".to_string() },
    };
    format!(
        "#![allow(unused)]\nuse matreex::Matrix;\n\n#[derive(Default)]\nstruct SyncNotSend(u8, std::marker::PhantomData<std::sync::MutexGuard<'static, u8>>);\n\nfn need_send<X: Send>(_: &X) {{}}\nfn need_sync<X: Sync>(_: &X) {{}}\n\nfn main() {{\n    let mut m: Matrix<{ty}> = Matrix::new();\n{bind}{act}}}\n"
    )
}

fn cut<'a>(s: &'a str, from: &str, to: char) -> Option<&'a str> {
    let i = s.find(from)? + from.len();
    let j = s[i..].find(to)?;
    Some(&s[i..i + j])
}

fn compile_probes(out: &mut Out) {
    out.case("compile probes (cargo check of client programs)");
    out.nontrivial();
    let dir = std::path::Path::new(env!("CARGO_MANIFEST_DIR")).parent().unwrap().join("probes");
    let bin = dir.join("src").join("bin");
    std::fs::create_dir_all(&bin).unwrap();
    let mut names = Vec::new();
    for level in ["outer", "inner"] {
        for axis in ["rows", "cols"] {
            for (ci, (_cls, ty, _, _)) in CLASSES.iter().enumerate() {
                for action in ACTIONS {
                    if (action == "clone" || action == "alias") && ci != 0 { continue; }
                    let name = format!("p_{level}_{axis}_{ci}_{action}");
                    let text = probe_program(level, axis, ty, action);
                    let path = bin.join(format!("{name}.rs"));
                    if std::fs::read_to_string(&path).ok().as_deref() != Some(text.as_str()) {
                        std::fs::write(&path, text).unwrap();
                    }
                    names.push((name, level, axis, ci, action));
                }
            }
        }
    }
    let res = std::process::Command::new("cargo")
        .args(["check", "--offline", "--bins", "--keep-going", "--message-format=json", "-q"])
        .current_dir(&dir)
        .env("CARGO_NET_OFFLINE", "true")
        .env_remove("RUSTFLAGS")
        .output();
    let res = match res {
        Ok(r) => r,
        Err(e) => { out.oracle_fail(&format!("compile probes: cargo could not be run: {e}")); return; }
    };
    let text = String::from_utf8_lossy(&res.stdout);
    let mut accepted: BTreeSet<String> = BTreeSet::new();
    let mut rejected: BTreeMap<String, BTreeSet<String>> = BTreeMap::new();
    for line in text.lines() {
        let Some(target) = cut(line, "\"target\":{", '}') else { continue };
        let Some(name) = cut(target, "\"name\":\"", '"') else { continue };
        if line.contains("\"reason\":\"compiler-artifact\"") {
            accepted.insert(name.to_string());
        } else if line.contains("\"reason\":\"compiler-message\"") && line.contains("\"level\":\"error\"") {
            let code = cut(line, "\"code\":{\"code\":\"", '"').unwrap_or("E????");
            rejected.entry(name.to_string()).or_default().insert(code.to_string());
        }
    }
    if !accepted.contains("matreex") {
        out.oracle_fail(&format!("compile probes: the crate itself did not check: {}", String::from_utf8_lossy(&res.stderr).chars().take(400).collect::<String>()));
        return;
    }
    for (name, level, axis, ci, action) in names {
        let (cls, _, send, sync) = CLASSES[ci];
        let op = format!("cprobe {level} {axis} {cls} {action}");
        out.announce(&op);
        let obs = if let Some(codes) = rejected.get(&name) {
            format!("reject {}", codes.iter().cloned().collect::<Vec<_>>().join("+"))
        } else if accepted.contains(&name) {
            "accept".to_string()
        } else {
            "no-verdict".to_string()
        };
        // the property's oracle
        let want = match action {
            "send" | "spawn" => if send { "accept" } else { "reject E0277" },
            "sync" | "share" => if sync { "accept" } else { "reject E0277" },
            "clone" => "reject E0599",
            _ => "reject E0499",
        };
        if obs != want {
            out.oracle_fail(&format!("{op}: the type checker says `{obs}` for the program probes/src/bin/{name}.rs, the property requires `{want}`"));
        }
        out.count(&format!("cprobe:{action}:{}", obs.split(' ').next().unwrap()));
        out.observe(&obs);
    }
}

// ------------------------------------------------------------------ threads
fn g(k: usize, t: usize, x: u64) -> u64 { x.wrapping_mul(3).wrapping_add(k as u64 * 100 + t as u64 + 1) }

fn jitter(x: u64) {
    let n = (x.wrapping_mul(0x9E3779B97F4A7C15)).rotate_left(11) % 61;
    let mut acc = 0u64;
    for i in 0..n * 6 { acc = acc.wrapping_add(std::hint::black_box(i)); }
    std::hint::black_box(acc);
}

/// what one thread did: (vector k, position t, address)
type Touched = Vec<(usize, usize, usize)>;

#[allow(clippy::too_many_arguments)]
fn drive<I, J>(out: &mut Out, op: &str, it: I, al: usize, vl: usize, opat: &str, ipat: &str, nthreads: usize, seed: u64) -> (usize, Vec<Option<usize>>, Vec<Touched>)
where
    I: ExactSizeDoubleEndedIterator<Item = J> + Send + Sync,
    J: ExactSizeDoubleEndedIterator<Item = &'static mut u64> + Send,
{
    // shared (&I) use from two other threads at once: needs I: Sync
    let (l1, l2) = std::thread::scope(|s| {
        let a = s.spawn(|| it.len());
        let b = s.spawn(|| it.len());
        (a.join().unwrap(), b.join().unwrap())
    });
    if l1 != al || l2 != al { out.oracle_fail(&format!("{op}: len() through a shared reference on other threads gave {l1}, {l2}, expected {al}")); }
    let mut rng = Rng(seed);
    let mut it = Some(it);
    let (mut f, mut b) = (0usize, 0usize);
    let mut yielded: Vec<Option<usize>> = Vec::new();
    let mut work: Vec<Vec<(usize, J)>> = (0..nthreads).map(|_| Vec::new()).collect();
    for c in opat.chars() {
        if c == 'E' {
            // internal iteration over the rest (`for_each` = `fold`, which an iterator may override)
            // (by value: `fold` takes `self`; through `&mut` the provided definition would be used)
            if let Some(whole) = it.take() {
                whole.for_each(|inner| {
                    yielded.push(Some(f));
                    work[rng.below(nthreads)].push((f, inner));
                    f += 1;
                });
            }
            continue;
        }
        let Some(it) = it.as_mut() else { yielded.push(None); continue };
        let (back, d) = pat_step(c);
        let v = match (back, d) { (false, 0) => it.next(), (true, 0) => it.next_back(), (false, d) => it.nth(d), (true, d) => it.nth_back(d) };
        match v {
            None => yielded.push(None),
            Some(inner) => {
                // the vector a client believes it got: front / back counters
                let k = if back { al.wrapping_sub(1).wrapping_sub(b).wrapping_sub(d) } else { f.wrapping_add(d) };
                if back { b = b.wrapping_add(d).wrapping_add(1) } else { f = f.wrapping_add(d).wrapping_add(1) }
                yielded.push(Some(k));
                work[rng.below(nthreads)].push((k, inner));
            }
        }
    }
    // the outer iterator itself moves to yet another thread and is dropped there: needs I: Send
    let barrier = Barrier::new(nthreads + 1);
    let touched: Vec<Touched> = std::thread::scope(|s| {
        let barrier = &barrier;
        s.spawn(move || { barrier.wait(); drop(it); });
        let handles: Vec<_> = work.into_iter().map(|mine| {
            s.spawn(move || {
                let mut touched: Touched = Vec::new();
                barrier.wait();
                for (k, mut inner) in mine {
                    let (mut f, mut b) = (0usize, 0usize);
                    let pat: Vec<char> = ipat.chars().collect();
                    let mut i = 0;
                    loop {
                        if pat[i % pat.len()] == 'E' {
                            // the rest of this vector through internal iteration
                            inner.for_each(|e| {
                                jitter(*e);
                                *e = g(k, f, *e);
                                touched.push((k, f, e as *mut u64 as usize));
                                f += 1;
                            });
                            break;
                        }
                        let (back, d) = pat_step(pat[i % pat.len()]);
                        i += 1;
                        let e = match (back, d) { (false, 0) => inner.next(), (true, 0) => inner.next_back(), (false, d) => inner.nth(d), (true, d) => inner.nth_back(d) };
                        let Some(e) = e else { break };
                        let t = if back { vl.wrapping_sub(1).wrapping_sub(b).wrapping_sub(d) } else { f.wrapping_add(d) };
                        if back { b = b.wrapping_add(d).wrapping_add(1) } else { f = f.wrapping_add(d).wrapping_add(1) }
                        jitter(*e);
                        *e = g(k, t, *e);
                        touched.push((k, t, e as *mut u64 as usize));
                        if touched.len() > 4_000_000 { break; }
                    }
                }
                touched
            })
        }).collect();
        handles.into_iter().map(|h| h.join().unwrap()).collect()
    });
    (l1, yielded, touched)
}

#[allow(clippy::too_many_arguments)]
fn thr_case(out: &mut Out, order: Order, nr: usize, nc: usize, rows: bool, opat: &str, ipat: &str, nthreads: usize, seed: u64) {
    let axis = if rows { "rows" } else { "cols" };
    let op = format!("thr {} {nr} {nc} {axis} {opat} {ipat} {nthreads} {seed}", ord_ch(order));
    out.announce(&op);
    let (al, vl) = if rows { (nr, nc) } else { (nc, nr) };
    let mut m = mk(order, nr, nc, |k| 1000 + k as u64);
    let base = if nr * nc > 0 { &m[(0, 0)] as *const u64 as usize } else { 0 };
    let res = catch(|| {
        // SAFETY of the lifetime extension: `m` outlives every use of the iterators (they are all
        // consumed or dropped inside `drive`); it only lets one generic function take both
        // opaque iterator types
        let mm: &'static mut Matrix<u64> = unsafe { &mut *(&mut m as *mut Matrix<u64>) };
        if rows { drive(out, &op, mm.iter_rows_mut(), al, vl, opat, ipat, nthreads, seed) } else { drive(out, &op, mm.iter_cols_mut(), al, vl, opat, ipat, nthreads, seed) }
    });
    let Some((len, yielded, touched)) = res else {
        out.oracle_fail(&format!("{op}: panicked"));
        out.observe("panic");
        return;
    };
    // ownership map thread -> addresses: pairwise disjoint, each the address of the position it stands for
    let mut owner: BTreeMap<usize, usize> = BTreeMap::new();
    for (j, t) in touched.iter().enumerate() {
        for &(k, pos, addr) in t {
            if let Some(&other) = owner.get(&addr) {
                out.oracle_fail(&format!("{op}: the element at address offset {} was reachable twice (threads {other} and {j}; vector {k} position {pos})", (addr.wrapping_sub(base)) / 8));
            }
            owner.insert(addr, j);
            let (r, c) = if rows { (k, pos) } else { (pos, k) };
            if r < nr && c < nc {
                let want = &m[(r, c)] as *const u64 as usize;
                if want != addr { out.oracle_fail(&format!("{op}: the reference for vector {k} position {pos} points at offset {} instead of {}", (addr.wrapping_sub(base)) / 8, (want - base) / 8)); }
            } else {
                out.oracle_fail(&format!("{op}: a reference for the non-existent position ({k}, {pos}) was handed out"));
            }
        }
    }
    let used = touched.iter().filter(|t| !t.is_empty()).count();
    out.count(&format!("threads-that-mutated:{used}"));
    out.count(if al > nthreads { "vectors>threads" } else if al < nthreads { "vectors<threads" } else { "vectors=threads" });
    // the same mutations done sequentially through indexing
    let mut seq = mk(order, nr, nc, |k| 1000 + k as u64);
    let mut seen = BTreeSet::new();
    for k in yielded.iter().flatten() {
        if !seen.insert(*k) { out.oracle_fail(&format!("{op}: vector {k} was yielded twice")); continue; }
        for t in positions(vl, ipat) {
            let (r, c) = if rows { (*k, t) } else { (t, *k) };
            if r < nr && c < nc { seq[(r, c)] = g(*k, t, seq[(r, c)]); }
        }
    }
    if seq != m { out.oracle_fail(&format!("{op}: the matrix after the concurrent mutations differs from the sequential run")); }
    let data: Vec<u64> = {
        // memory order
        let mut v = Vec::with_capacity(nr * nc);
        let (maj, min) = if order == Order::RowMajor { (nr, nc) } else { (nc, nr) };
        for i in 0..maj { for j in 0..min { let (r, c) = if order == Order::RowMajor { (i, j) } else { (j, i) }; v.push(m[(r, c)]); } }
        v
    };
    let d = if nr * nc <= 64 { format!("{:?}", data) } else {
        let sum = data.iter().fold(0u64, |a, &x| a.wrapping_add(x));
        let mix = data.iter().fold(17u64, |a, &x| a.wrapping_mul(31).wrapping_add(x));
        format!("n={} sum={sum} mix={mix}", data.len())
    };
    let ys: Vec<String> = yielded.iter().map(|y| y.map_or("none".to_string(), |k| k.to_string())).collect();
    out.observe(&format!("len={len} yield=[{}] data={d}", ys.join(", ")));
}

/// one pattern character: `F` = next, `B` = next_back, `1`..`9` = nth(d), `a`..`i` = nth_back(d), `H` / `h` = nth / nth_back of a huge count
fn pat_step(c: char) -> (bool, usize) {
    match c {
        'B' => (true, 0), '1'..='9' => (false, c as usize - 48), 'a'..='i' => (true, c as usize - 96),
        // jumps far beyond any extent (a product with the pitch overflows): the contract says `None`
        'H' => (false, usize::MAX / 3 + 1), 'h' => (true, usize::MAX / 5 + 1),
        _ => (false, 0),
    }
}

/// the positions of a vector of `vl` elements that a client following `ipat` (cycled, until the
/// first `None`) gets, by the contract of next / next_back / nth / nth_back
fn positions(vl: usize, ipat: &str) -> Vec<usize> {
    let pat: Vec<char> = ipat.chars().collect();
    let (mut f, mut b, mut i) = (0usize, 0usize, 0usize);
    let mut res = Vec::new();
    loop {
        if pat[i % pat.len()] == 'E' {
            res.extend(f..vl - b);
            break;
        }
        let (back, d) = pat_step(pat[i % pat.len()]);
        i += 1;
        if d >= vl - f - b { break; }
        res.push(if back { vl - 1 - b - d } else { f + d });
        if back { b += d + 1 } else { f += d + 1 }
    }
    res
}

fn pattern(rng: &mut Rng, n: usize) -> String {
    let kind = rng.below(11);
    // a few single steps, then a jump far beyond the end
    if kind == 10 { let k = rng.below(n.min(3) + 1); let last = if rng.coin() { 'H' } else { 'h' }; return (0..k).map(|_| if rng.coin() { 'F' } else { 'B' }).chain([last]).collect(); }
    // internal iteration: `for_each` over everything / after a few single steps
    if kind == 8 { return "E".to_string(); }
    if kind == 9 { let k = rng.below(n.min(3) + 1); return (0..k).map(|_| if rng.coin() { 'F' } else { 'B' }).chain(['E']).collect(); }
    (0..n).map(|i| match kind {
        0 => 'F', 1 => 'B', 2 => if i % 2 == 0 { 'F' } else { 'B' }, 3 => if i == 0 { 'B' } else { 'F' },
        4 => if rng.coin() { 'F' } else { 'B' },
        // every other one (what step_by(2) does after its first item), from the front / from the back
        5 => if i == 0 { 'F' } else { '1' },
        6 => if i == 0 { 'B' } else { 'a' },
        // everything mixed: single steps and jumps of 1..3 from both ends
        _ => *rng.pick(&['F', 'B', '1', '2', '3', 'a', 'b', 'F', 'B']),
    }).collect()
}

pub fn run_c17(out: &mut Out, rng: &mut Rng, tier: Tier) -> String {
    type_probes(out);
    compile_probes(out);
    let mut shapes: Vec<(usize, usize)> = Vec::new();
    for r in 0..=5 { for c in 0..=5 { shapes.push((r, c)); } }
    shapes.extend([(2, 9), (9, 2), (16, 3), (3, 16), (33, 64), (5, 200), (120, 7)]);
    let reps = if tier == Tier::Quick { 3 } else { 12 };
    let mut cases = 0;
    for _ in 0..reps {
        for &(nr, nc) in &shapes {
            for order in ORDERS {
                for rows in [true, false] {
                    let al = if rows { nr } else { nc };
                    // complete (and over-long) call sequences mostly, partial ones sometimes
                    let n = match rng.below(4) { 0 => rng.below(al + 1), _ => al + 2 };
                    let opat = pattern(rng, n.max(1));
                    let ilen = 1 + rng.below(4);
                    let ipat = pattern(rng, ilen);
                    let nthreads = *rng.pick(&[1usize, 2, 2, 3, 4, 8, 16]);
                    out.case(&format!("thr shape={} order={} {} threads={nthreads}", shape_class(nr, nc), ord_ch(order), if rows { "rows" } else { "cols" }));
                    thr_case(out, order, nr, nc, rows, &opat, &ipat, nthreads, rng.next());
                    if nr * nc > 1 { out.nontrivial(); }
                    cases += 1;
                }
            }
        }
    }
    format!(
        "type level: in-process auto-trait probes (16: outer / inner iterator x rows / cols x the four (Send, Sync) classes of element types u64, Cell<u32>, a Sync-but-not-Send struct, Rc<u8>) and {} compile probes (cargo check of one client program each under /verif/probes: need_send / need_sync bounds, moving the iterator into a scoped thread, sharing it with a scoped thread, cloning it, touching the matrix while the iterator is alive), verdict and diagnostic code compared with the model and with the property's rule; \
         run time: {cases} threaded cases: shapes 0..5 x 0..5 plus 2x9, 9x2, 16x3, 3x16, 33x64, 5x200, 120x7, both orders, rows and columns, outer call patterns of next / next_back / nth(d) / nth_back(d) (all-front, all-back, alternating, back-then-front, random, every-other-one from the front / from the back, mixed steps and jumps of 1..3 from both ends, jumps of usize::MAX / 3 + 1 and usize::MAX / 5 + 1 after a few steps, for_each over the rest (internal iteration); mostly running past exhaustion, a quarter partial), inner patterns likewise, 1..16 threads (more and fewer vectors than threads) with the vectors assigned to threads by the run's PRNG, per-element jitter, a barrier start, the outer iterator itself shared (len) with and then moved to other threads. \
         Oracle: ownership map thread -> addresses pairwise disjoint, every reference at the address of the position it stands for, no vector yielded twice, final matrix equal to the sequential run through indexing. A case = one probe group or one threaded run",
        2 * 2 * (4 * 4 + 2)
    )
}
