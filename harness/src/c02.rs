//! C02: fault injection — for every operation that runs caller code, for every k, the k-th callback
//! (Default, Clone, Drop, PartialEq, Display, operator impls, closures, index accessors) panics; the
//! unwind is caught; every surviving matrix must be coherent, usable and droppable; no token is
//! ever dropped twice.

use crate::common::*;
use crate::tok::*;
use matreex::index::AsIndex;
use matreex::parallel::*;
use matreex::{Matrix, Order};

fn build(order: Order, nr: usize, nc: usize, base: usize) -> Matrix<Tok> {
    mk(order, nr, nc, |k| Tok::new((base + k).to_string()))
}

fn axis(m: &Matrix<Tok>) -> (usize, usize) {
    match m.order() { Order::RowMajor => (m.nrows(), m.ncols()), Order::ColMajor => (m.ncols(), m.nrows()) }
}

/// the C02 oracle on one surviving matrix: coherent, every coordinate readable, usable in a
/// follow-up history, droppable
fn check_survivor(out: &mut Out, mut m: Matrix<Tok>, what: &str) {
    if (m.nrows() as u128) * (m.ncols() as u128) != m.size() as u128 {
        out.oracle_fail(&format!("{what}: surviving matrix has shape {}x{} over {} stored elements", m.nrows(), m.ncols(), m.size()));
        // using it further could be undefined behaviour: leak it
        std::mem::forget(m);
        return;
    }
    let r = catch(|| {
        let mut n = 0usize;
        for i in 0..m.nrows() { for j in 0..m.ncols() { if m.get((i, j)).is_ok() { n += 1; } } }
        assert_eq!(n, m.size());
        assert_eq!(m.iter_elements().count(), m.size());
        let total: usize = m.iter_rows_mut().map(|row| row.count()).sum();
        assert_eq!(total, m.size());
        m.transpose();
        m.switch_order();
        let _ = m.resize((2, 2));
        let _ = format!("{m}");
        let c = m.clone();
        let _ = c == m;
        drop(c);
        m.clear();
    });
    if r.is_none() {
        out.oracle_fail(&format!("{what}: the surviving matrix could not be used normally afterwards"));
    }
}

/// run `f` with the k-th callback panicking; returns (fired, result of catch)
fn with_fault<R>(k: u64, f: impl FnOnce() -> R) -> (bool, Option<R>) {
    set_fuse(Some(k));
    let r = catch(f);
    let fired = LEDGER.lock().unwrap_or_else(|e| e.into_inner()).fuse.is_none();
    set_fuse(None);
    (fired, r)
}

struct FaultyIndex(usize, usize);
impl AsIndex for &FaultyIndex {
    fn row(&self) -> usize { callback(); self.0 }
    fn col(&self) -> usize { callback(); self.1 }
}

const MAXK: u64 = 400;

/// model-compared in-place operations: the survivor's shape and length are predicted
fn modelled(out: &mut Out) {
    let shapes = [(0usize, 0usize), (1, 1), (2, 2), (2, 3), (3, 1), (0, 3), (3, 0)];
    for &(r0, c0) in &shapes {
        for order in ORDERS {
            // resize to every small target: growing, shrinking, degenerate
            for (r1, c1) in [(0usize, 0usize), (1, 1), (2, 2), (1, 2), (3, 3), (0, 2), (2, 0), (3, 2)] {
                out.case(&format!("fault resize {r0}x{c0}{} -> {r1}x{c1}", ord_ch(order)));
                out.nontrivial();
                for k in 0..MAXK {
                    let mut m = build(order, r0, c0, 1);
                    let (a0, a1) = axis(&m);
                    let (t0, t1) = match order { Order::RowMajor => (r1, c1), Order::ColMajor => (c1, r1) };
                    let op = format!("fault {k} resize {a0} {a1} {t0} {t1}");
                    out.announce(&op);
                    let (fired, res) = with_fault(k, || m.resize((r1, c1)).map(|_| ()));
                    let (s0, s1) = axis(&m);
                    out.observe(&format!("{} {s0}x{s1} len={}", if res.is_some() { "done" } else { "unwound" }, m.size()));
                    out.count(if fired { "resize:fault-fired" } else { "resize:completed" });
                    check_survivor(out, m, &op);
                    if !fired { break; }
                }
            }
            // clear
            out.case(&format!("fault clear {r0}x{c0}{}", ord_ch(order)));
            for k in 0..MAXK {
                let mut m = build(order, r0, c0, 1);
                let (a0, a1) = axis(&m);
                let op = format!("fault {k} clear {a0} {a1}");
                out.announce(&op);
                let (fired, res) = with_fault(k, || { m.clear(); });
                let (s0, s1) = axis(&m);
                out.observe(&format!("{} {s0}x{s1} len={}", if res.is_some() { "done" } else { "unwound" }, m.size()));
                check_survivor(out, m, &op);
                if !fired { break; }
            }
            // apply / generic elementwise assign / generic scalar assign: one callback per element
            for kind in ["apply", "ew_assign", "scalar_assign", "iter_mut"] {
                out.case(&format!("fault {kind} {r0}x{c0}{}", ord_ch(order)));
                for k in 0..MAXK {
                    let mut m = build(order, r0, c0, 1);
                    let other = build(if k % 2 == 0 { order } else { Order::ColMajor }, r0, c0, 500);
                    let (a0, a1) = axis(&m);
                    let op = format!("fault {k} foreach {a0} {a1}");
                    out.announce(&op);
                    let s = Tok::new("S");
                    let (fired, res) = with_fault(k, || match kind {
                        "apply" => { m.apply(|e| { callback(); e.val.push('!'); }); }
                        "ew_assign" => { let _ = m.elementwise_operation_assign(&other, |l, r| { callback(); l.val = format!("[{}|{}]", l.val, r.val); }); }
                        "scalar_assign" => { m.scalar_operation_assign(&s, |e, s| { callback(); e.val = format!("[{}|{}]", e.val, s.val); }); }
                        _ => { for e in m.iter_elements_mut() { callback(); e.val.push('!'); } }
                    });
                    let (s0, s1) = axis(&m);
                    out.observe(&format!("{} {s0}x{s1} len={}", if res.is_some() { "done" } else { "unwound" }, m.size()));
                    check_survivor(out, m, &op);
                    check_survivor(out, other, &op);
                    if !fired { break; }
                }
            }
            // overwrite from sources of several shapes and orders
            for (sr, sc) in [(1usize, 1usize), (2, 2), (3, 3), (2, 1)] {
                for sorder in ORDERS {
                    out.case(&format!("fault overwrite {r0}x{c0}{} <- {sr}x{sc}{}", ord_ch(order), ord_ch(sorder)));
                    for k in 0..MAXK {
                        let mut m = build(order, r0, c0, 1);
                        let src = build(sorder, sr, sc, 500);
                        let (a0, a1) = axis(&m);
                        let block = r0.min(sr) * c0.min(sc);
                        let op = format!("fault {k} overwrite {a0} {a1} {block}");
                        out.announce(&op);
                        let (fired, res) = with_fault(k, || { m.overwrite(&src); });
                        let (s0, s1) = axis(&m);
                        out.observe(&format!("{} {s0}x{s1} len={}", if res.is_some() { "done" } else { "unwound" }, m.size()));
                        check_survivor(out, m, &op);
                        check_survivor(out, src, &op);
                        if !fired { break; }
                    }
                }
            }
            // consuming map: nothing of the operation survives a fault
            out.case(&format!("fault map {r0}x{c0}{}", ord_ch(order)));
            for k in 0..MAXK {
                let m = build(order, r0, c0, 1);
                let (a0, a1) = axis(&m);
                let op = format!("fault {k} mapconsume {a0} {a1}");
                out.announce(&op);
                let (fired, res) = with_fault(k, || m.map(|e| { callback(); e }));
                out.observe(if res.is_some() { "done" } else { "unwound" });
                if let Some(Ok(x)) = res { check_survivor(out, x, &op); }
                if !fired { break; }
            }
        }
    }
}

/// every other operation that runs caller code: the oracle decides
fn oracle_only(out: &mut Out) {
    let shapes = [(1usize, 1usize), (2, 2), (2, 3), (3, 2), (0, 2), (2, 0)];
    let kinds = [
        "clone", "map_ref", "with_default", "with_value", "with_initializer", "from_slice_vec", "from_vec_vec", "from_iter",
        "ew_ref_named", "ew_consume_named", "ew_assign_named", "ew_ref_gen", "ew_consume_gen", "op_add_bb", "op_sub_ob", "op_add_assign",
        "scalar_ref", "scalar_consume", "multiply", "mul_like", "op_mul_bb", "op_mul_ob", "eq", "contains", "display", "debug",
        "clone_from_small", "clone_from_large", "swap_accessor", "get_accessor", "index_accessor", "resize_twice", "par_apply", "par_map", "par_map_ref", "neg", "into_iter_drop", "rows_mut_mutate",
    ];
    for &(nr, nc) in &shapes {
        for ao in ORDERS {
            for bo in ORDERS {
                for kind in kinds {
                    out.case(&format!("faultx {kind} {nr}x{nc} orders={}{}", ord_ch(ao), ord_ch(bo)));
                    out.nontrivial();
                    for k in 0..MAXK {
                        let mut a = build(ao, nr, nc, 1);
                        let mut b = build(bo, nr, nc, 500);
                        let mut c = build(bo, nc, nr.max(1), 900); // conformable right factor for products
                        let op = format!("faultx {k} {kind} {nr} {nc} {}{}", ord_ch(ao), ord_ch(bo));
                        out.announce(&op);
                        let mut results: Vec<Matrix<Tok>> = Vec::new();
                        let s = Tok::new("S");
                        let (fired, _) = with_fault(k, || {
                            match kind {
                                "clone" => results.push(a.clone()),
                                "clone_from_small" => { let d = build(bo, 1, 1, 700); a.clone_from(&d); results.push(d); }
                                "clone_from_large" => { let d = build(bo, 3, 3, 700); a.clone_from(&d); results.push(d); }
                                "map_ref" => { if let Ok(x) = a.map_ref(|e| { callback(); Tok::new(e.val.clone()) }) { results.push(x); } }
                                "with_default" => { if let Ok(x) = Matrix::<Tok>::with_default((nr, nc)) { results.push(x); } }
                                "with_value" => { if let Ok(x) = Matrix::with_value((nr, nc), Tok::new("v")) { results.push(x); } }
                                "with_initializer" => { if let Ok(x) = Matrix::with_initializer((nr, nc), |i| { callback(); Tok::new(format!("{}.{}", i.row, i.col)) }) { results.push(x); } }
                                "from_slice_vec" => { let rows: Vec<Vec<Tok>> = (0..nr).map(|r| (0..nc).map(|c| Tok::new(format!("{r}.{c}"))).collect()).collect(); if let Ok(x) = Matrix::try_from(rows.as_slice()) { results.push(x); } }
                                "from_vec_vec" => { let rows: Vec<Vec<Tok>> = (0..nr).map(|r| (0..nc).map(|c| Tok::new(format!("{r}.{c}"))).collect()).collect(); if let Ok(x) = Matrix::try_from(rows) { results.push(x); } }
                                "from_iter" => { let x: Matrix<Tok> = (0..nr).map(|r| (0..nc).map(move |c| { callback(); Tok::new(format!("{r}.{c}")) })).collect(); results.push(x); }
                                "ew_ref_named" => { if let Ok(x) = a.elementwise_add(&b) { results.push(x); } }
                                "ew_consume_named" => { let a2 = std::mem::replace(&mut a, Matrix::new()); if let Ok(x) = a2.elementwise_sub_consume_self(&b) { results.push(x); } }
                                "ew_assign_named" => { let _ = a.elementwise_mul_assign(&b); }
                                "ew_ref_gen" => { if let Ok(x) = a.elementwise_operation(&b, |l, r| { callback(); Tok::new(format!("{}{}", l.val, r.val)) }) { results.push(x); } }
                                "ew_consume_gen" => { let a2 = std::mem::replace(&mut a, Matrix::new()); if let Ok(x) = a2.elementwise_operation_consume_self(&b, |l, r| { callback(); Tok::new(format!("{}{}", l.val, r.val)) }) { results.push(x); } }
                                "op_add_bb" => results.push(&a + &b),
                                "op_sub_ob" => { let a2 = std::mem::replace(&mut a, Matrix::new()); results.push(a2 - &b); }
                                "op_add_assign" => { a += &b; }
                                "scalar_ref" => { if let Ok(x) = a.scalar_operation(&s, |e, s| { callback(); Tok::new(format!("{}{}", e.val, s.val)) }) { results.push(x); } }
                                "scalar_consume" => { let a2 = std::mem::replace(&mut a, Matrix::new()); if let Ok(x) = a2.scalar_operation_consume_self(&s, |e, s| { callback(); Tok::new(format!("{}{}", e.val, s.val)) }) { results.push(x); } }
                                "multiply" => { let a2 = std::mem::replace(&mut a, Matrix::new()); let c2 = std::mem::replace(&mut c, Matrix::new()); if let Ok(x) = a2.multiply(c2) { results.push(x); } }
                                "mul_like" => { let a2 = std::mem::replace(&mut a, Matrix::new()); let c2 = std::mem::replace(&mut c, Matrix::new()); if let Ok(x) = a2.multiplication_like_operation(c2, |l, r| { callback(); Tok::new(format!("{}{}", l.len(), r.len())) }) { results.push(x); } }
                                "op_mul_bb" => results.push(&a * &c),
                                "op_mul_ob" => { let a2 = std::mem::replace(&mut a, Matrix::new()); results.push(a2 * &c); }
                                "eq" => { let _ = a == b; let _ = a == a.clone(); }
                                "contains" => { let _ = a.contains(&s); }
                                "display" => { let _ = format!("{a}"); }
                                "debug" => { let _ = format!("{a:?}"); }
                                "swap_accessor" => { let _ = a.swap(&FaultyIndex(0, 0), &FaultyIndex(nr.saturating_sub(1), nc.saturating_sub(1))); }
                                "get_accessor" => { let _ = a.get(&FaultyIndex(0, 0)); let _ = a.get_mut(&FaultyIndex(nr, nc)); }
                                "index_accessor" => { if nr * nc > 0 { let _ = &a[&FaultyIndex(0, 0)]; a[&FaultyIndex(nr - 1, nc - 1)].val.push('!'); } }
                                "resize_twice" => { let _ = a.resize((nr + 1, nc + 1)); let _ = a.resize((1, 1)); }
                                "par_apply" => { a.par_apply(|e| { callback(); e.val.push('!'); }); }
                                "par_map" => { let a2 = std::mem::replace(&mut a, Matrix::new()); if let Ok(x) = a2.par_map(|e| { callback(); e }) { results.push(x); } }
                                "par_map_ref" => { if let Ok(x) = a.par_map_ref(|e| { callback(); Tok::new(e.val.clone()) }) { results.push(x); } }
                                "neg" => results.push(-&a),
                                "into_iter_drop" => { let a2 = std::mem::replace(&mut a, Matrix::new()); let mut it = a2.into_iter_elements(); let _ = it.next(); drop(it); }
                                _ => { for row in a.iter_rows_mut() { for e in row { callback(); e.val.push('!'); } } }
                            }
                        });
                        // survivors: everything still owned here
                        check_survivor(out, a, &op);
                        check_survivor(out, b, &op);
                        check_survivor(out, c, &op);
                        for x in results { check_survivor(out, x, &op); }
                        drop(s);
                        out.observe("checked");
                        out.count(if fired { "faultx:fault-fired" } else { "faultx:completed" });
                        if !fired { break; }
                    }
                }
            }
        }
    }
}

pub fn run_c02(out: &mut Out, _rng: &mut Rng, _tier: Tier) -> String {
    ledger_reset();
    set_drop_callbacks(true);
    modelled(out);
    oracle_only(out);
    set_drop_callbacks(false);
    set_fuse(None);
    let s = snapshot();
    if s.double_drops > 0 {
        out.oracle_fail(&format!("{} tokens were dropped twice during the run", s.double_drops));
    }
    out.exhaustive = true;
    "single-fault enumeration: for every operation kind x shape class x storage order(s) x k = 0, 1, 2, ... (until the operation completes without the fault firing) the k-th caller-code invocation panics — T::default, Clone::clone, Drop::drop, PartialEq::eq, Display/Debug::fmt, the + - * operator impls and their assign forms, every closure, AsIndex::row/col — and the unwind is caught. \
     Model-compared (survivor shape and length predicted by the fault-schedule model): resize from 7 shapes to 8 targets, clear, apply / generic elementwise-assign / generic scalar-assign / iter_elements_mut, overwrite from 4 source shapes x 2 orders, consuming map. \
     Oracle-only: clone, clone_from (smaller / larger source), map_ref, with_default/value/initializer, three conversions, named and generic elementwise operations in all ownership variants, + - += operators, scalar operations, multiply / multiplication_like_operation / * operators, ==, contains, Display, Debug, swap/get/[] through a panicking accessor, double resize, par_apply / par_map / par_map_ref, unary minus, a half-consumed into_iter, mutation through iter_rows_mut; 6 shapes x 4 order combinations each. \
     Oracle on every survivor (operands still owned, results, the in-place target): nrows*ncols == size; every coordinate readable through get; iter_elements and iter_rows_mut traverse size elements; then transpose, switch_order, resize, Display, clone, ==, clear, drop all work; over the whole run no token is dropped twice (leaks allowed). Every case is non-trivial".to_string()
}
