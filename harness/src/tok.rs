//! Token elements: a payload string plus a unique id per live instance, with a thread-local
//! ledger of create / clone / drop events so that "moved, never cloned or dropped" and "dropped
//! exactly once" are observable.  A countdown makes the k-th callback panic (fault injection).

use std::collections::HashSet;
use std::sync::{LazyLock, Mutex, MutexGuard};

#[derive(Default)]
pub struct Ledger {
    pub next_id: u64,
    pub live: HashSet<u64>,
    pub created: u64,
    pub cloned: u64,
    pub dropped: u64,
    pub defaults: u64,
    pub eq_calls: u64,
    pub double_drops: Vec<u64>,
    /// fault injection: when `Some(0)` the next callback panics; counts down otherwise
    pub fuse: Option<u64>,
    pub callbacks: u64,
    /// C02: `Drop::drop` of a token counts as a callback (and may be the one that panics)
    pub drop_callbacks: bool,
    /// zero-sized counted elements (`Zd`): created - dropped, and drops beyond creations
    pub zst_live: i64,
    pub zst_overdrops: u64,
}

/// one process-wide ledger (tokens may be created / dropped on worker threads)
pub static LEDGER: LazyLock<Mutex<Ledger>> = LazyLock::new(|| Mutex::new(Ledger::default()));

fn ledger() -> MutexGuard<'static, Ledger> {
    LEDGER.lock().unwrap_or_else(|e| e.into_inner())
}

pub fn ledger_reset() {
    *ledger() = Ledger::default();
}

#[derive(Clone, Copy, PartialEq, Eq, Debug, Default)]
pub struct Snapshot {
    pub created: u64,
    pub cloned: u64,
    pub dropped: u64,
    pub defaults: u64,
    pub live: usize,
    pub double_drops: usize,
    pub callbacks: u64,
    pub zst_live: i64,
    pub zst_overdrops: u64,
}

pub fn snapshot() -> Snapshot {
    {
        let l = ledger();
        Snapshot {
            created: l.created,
            cloned: l.cloned,
            dropped: l.dropped,
            defaults: l.defaults,
            live: l.live.len(),
            double_drops: l.double_drops.len(),
            callbacks: l.callbacks,
            zst_live: l.zst_live,
            zst_overdrops: l.zst_overdrops,
        }
    }
}

pub fn set_fuse(k: Option<u64>) {
    ledger().fuse = k;
}

/// one caller-code invocation: counts, and panics if the fuse has burnt down
pub fn callback() {
    let fire = {
        let mut l = ledger();
        l.callbacks += 1;
        match l.fuse {
            Some(0) => {
                l.fuse = None;
                true
            }
            Some(k) => {
                l.fuse = Some(k - 1);
                false
            }
            None => false,
        }
    };
    if fire && !std::thread::panicking() {
        panic!("injected fault");
    }
}

fn fresh_id(l: &mut Ledger) -> u64 {
    let id = l.next_id;
    l.next_id += 1;
    l.live.insert(id);
    id
}

#[derive(Debug)]
pub struct Tok {
    pub id: u64,
    pub val: String,
    _pad: u64, // 24 + 8 + 8 bytes: a non-trivial element size
}

impl Tok {
    pub fn new(val: impl Into<String>) -> Tok {
        let id = {
            let mut l = ledger();
            l.created += 1;
            fresh_id(&mut l)
        };
        Tok { id, val: val.into(), _pad: 0 }
    }
}

impl Clone for Tok {
    fn clone(&self) -> Tok {
        callback();
        let id = {
            let mut l = ledger();
            l.cloned += 1;
            fresh_id(&mut l)
        };
        // a clone is marked with a prime, so that cloned elements are visible in observations
        Tok { id, val: format!("{}'", self.val), _pad: 0 }
    }
}

impl Default for Tok {
    fn default() -> Tok {
        callback();
        let id = {
            let mut l = ledger();
            l.defaults += 1;
            fresh_id(&mut l)
        };
        Tok { id, val: "d".to_string(), _pad: 0 }
    }
}

pub fn set_drop_callbacks(on: bool) {
    ledger().drop_callbacks = on;
}

impl Drop for Tok {
    fn drop(&mut self) {
        let on = ledger().drop_callbacks;
        {
            let mut l = ledger();
            l.dropped += 1;
            if !l.live.remove(&self.id) {
                l.double_drops.push(self.id);
            }
        }
        // the bookkeeping above is done first: a panicking destructor still counts as run
        if on {
            callback();
        }
    }
}

impl PartialEq for Tok {
    fn eq(&self, other: &Tok) -> bool {
        callback();
        ledger().eq_calls += 1;
        // a payload that starts with "nan" behaves like a floating-point NaN: equal to nothing, itself included
        self.val == other.val && !self.val.starts_with("nan")
    }
}

impl std::fmt::Display for Tok {
    fn fmt(&self, f: &mut std::fmt::Formatter<'_>) -> std::fmt::Result {
        callback();
        write!(f, "{}", self.val)
    }
}

macro_rules! sym_op {
    ($tr:ident, $m:ident, $atr:ident, $am:ident, $sym:expr) => {
        impl std::ops::$tr<Tok> for Tok {
            type Output = Tok;
            fn $m(self, rhs: Tok) -> Tok {
                callback();
                Tok::new(format!("({}{}{})", self.val, $sym, rhs.val))
            }
        }
        impl std::ops::$atr<Tok> for Tok {
            fn $am(&mut self, rhs: Tok) {
                callback();
                self.val = format!("({}{}{})", self.val, $sym, rhs.val);
            }
        }
    };
}
sym_op!(Add, add, AddAssign, add_assign, "+");
sym_op!(Sub, sub, SubAssign, sub_assign, "-");
sym_op!(Mul, mul, MulAssign, mul_assign, "*");
sym_op!(Div, div, DivAssign, div_assign, "/");
sym_op!(Rem, rem, RemAssign, rem_assign, "%");

impl std::ops::Neg for Tok {
    type Output = Tok;
    fn neg(self) -> Tok {
        callback();
        Tok::new(format!("(-{})", self.val))
    }
}

/// what the history interpreter needs from an element type
pub trait Elem: Sized + Default + 'static {
    const ZST: bool;
    /// does `Clone::clone` mark the payload (so that clones are visible)?
    const MARKS_CLONES: bool = false;
    /// are creations (make / default / clone) and drops of this type counted in the ledger?
    const COUNTED: bool = false;
    const KIND: &'static str;
    fn make(payload: String) -> Self;
    fn show(&self) -> String;
    fn dflt() -> Self;
}

impl Elem for Tok {
    const ZST: bool = false;
    const MARKS_CLONES: bool = true;
    const COUNTED: bool = true;
    const KIND: &'static str = "tok";
    fn make(payload: String) -> Self {
        Tok::new(payload)
    }
    fn show(&self) -> String {
        self.val.clone()
    }
    fn dflt() -> Self {
        Tok::default()
    }
}

impl Elem for () {
    const ZST: bool = true;
    const KIND: &'static str = "unit";
    fn make(_: String) -> Self {}
    fn show(&self) -> String {
        "u".to_string()
    }
    fn dflt() -> Self {}
}

impl Elem for u8 {
    const ZST: bool = false;
    const KIND: &'static str = "u8";
    fn make(p: String) -> Self { p.parse::<u64>().unwrap() as u8 }
    fn show(&self) -> String { self.to_string() }
    fn dflt() -> Self { 0 }
}

impl Elem for u32 {
    const ZST: bool = false;
    const KIND: &'static str = "u32";
    fn make(p: String) -> Self { p.parse::<u64>().unwrap() as u32 }
    fn show(&self) -> String { self.to_string() }
    fn dflt() -> Self { 0 }
}

impl Elem for [u64; 3] {
    const ZST: bool = false;
    const KIND: &'static str = "w24";
    fn make(p: String) -> Self { let v = p.parse::<u64>().unwrap(); [v, !v, v ^ 0x5555] }
    fn show(&self) -> String {
        assert!(self[1] == !self[0] && self[2] == self[0] ^ 0x5555, "torn 24-byte element");
        self[0].to_string()
    }
    fn dflt() -> Self { [0, !0, 0x5555] }
}

/// an element with a non-trivial `Clone` but *no* drop glue (`needs_drop` is false): a clone is
/// one generation older than its original
#[derive(Debug, PartialEq, Default)]
pub struct Cm {
    pub v: u32,
    pub generation: u32,
}

impl Clone for Cm {
    fn clone(&self) -> Cm {
        Cm { v: self.v, generation: self.generation + 1 }
    }
}

impl Elem for Cm {
    const ZST: bool = false;
    const MARKS_CLONES: bool = true;
    const KIND: &'static str = "cm";
    fn make(p: String) -> Self { Cm { v: p.parse::<u64>().unwrap() as u32, generation: 0 } }
    fn show(&self) -> String { format!("{}{}", self.v, "'".repeat(self.generation as usize)) }
    fn dflt() -> Self { Cm { v: 0, generation: 0 } }
}

/// a ZERO-SIZED element type with drop glue, a counting `Default` and a counting `Clone`: it has no
/// identity, so the ledger keeps counts only (creations by kind, drops, live = created - dropped)
#[derive(Debug)]
pub struct Zd;

impl Zd {
    pub fn new() -> Zd {
        let mut l = ledger();
        l.created += 1;
        l.zst_live += 1;
        Zd
    }
}

impl Clone for Zd {
    fn clone(&self) -> Zd {
        let mut l = ledger();
        l.cloned += 1;
        l.zst_live += 1;
        Zd
    }
}

impl Default for Zd {
    fn default() -> Zd {
        let mut l = ledger();
        l.defaults += 1;
        l.zst_live += 1;
        Zd
    }
}

impl Drop for Zd {
    fn drop(&mut self) {
        let mut l = ledger();
        l.dropped += 1;
        l.zst_live -= 1;
        if l.zst_live < 0 {
            l.zst_overdrops += 1;
        }
    }
}

impl Elem for Zd {
    const ZST: bool = true;
    const COUNTED: bool = true;
    const KIND: &'static str = "unit";
    fn make(_: String) -> Self { Zd::new() }
    fn show(&self) -> String { "u".to_string() }
    fn dflt() -> Self { Zd::default() }
}

macro_rules! zst_elem {
    ($name:ident, $align:expr, $kind:expr) => {
        #[repr(align($align))]
        #[derive(Default, Clone, Debug)]
        pub struct $name;
        impl Elem for $name {
            const ZST: bool = true;
            const KIND: &'static str = $kind;
            fn make(_: String) -> Self { $name }
            fn show(&self) -> String { "u".to_string() }
            fn dflt() -> Self { $name }
        }
    };
}
zst_elem!(Z2, 2, "z2");
zst_elem!(Z4, 4, "z4");
zst_elem!(Z8, 8, "z8");
