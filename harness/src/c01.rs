//! C01: long random histories over the public safe operations, with the row-of-rows reference
//! oracle after every operation, address distinctness, and the ownership ledger (every token
//! dropped exactly once, never duplicated).

use crate::common::*;
use crate::hist::*;
use crate::tok::*;
use matreex::Order;

const NREG: usize = 4;

fn live<E: Elem>(w: &World<E>) -> Vec<usize> {
    (0..NREG).filter(|r| w.regs[*r].is_some()).collect()
}

/// every in-bounds coordinate resolves to its own element: addresses pairwise distinct and equal
/// to base + offset * size
fn check_addresses<E: Elem>(out: &mut Out, w: &World<E>, r: usize, what: &str) {
    let Some(m) = w.regs[r].as_ref() else { return };
    if size_of::<E>() == 0 || m.size() == 0 || m.size() > 64 { return; }
    let base = m.iter_elements().next().map(|e| e as *const E as usize).unwrap();
    let mut seen = std::collections::HashSet::new();
    for i in 0..m.nrows() {
        for j in 0..m.ncols() {
            let a = m.get((i, j)).map(|e| e as *const E as usize).unwrap_or(0);
            let off = a.wrapping_sub(base) / size_of::<E>();
            if a < base || off >= m.size() || !seen.insert(a) {
                out.oracle_fail(&format!("{what}: coordinate ({i},{j}) of register {r} resolves to offset {off} (size {}), duplicate or out of range", m.size()));
            }
        }
    }
}

/// operations available for every element type
fn generic_step<E: Elem + Clone>(out: &mut Out, w: &mut World<E>, rng: &mut Rng) {
    let lv = live(w);
    if lv.is_empty() || rng.below(12) == 0 {
        let r = rng.below(NREG);
        if w.regs[r].is_some() { w.drop_reg(out, r); }
        let (nr, nc) = match rng.below(6) { 0 => (rng.below(5), 0), 1 => (0, rng.below(5)), _ => (rng.below(5), rng.below(5)) };
        w.new_matrix(out, r, *rng.pick(&ORDERS), nr, nc, 100 * (1 + rng.below(9)));
        return;
    }
    let r = *rng.pick(&lv);
    let (nr, nc) = { let m = w.regs[r].as_ref().unwrap(); (m.nrows(), m.ncols()) };
    let size = nr * nc;
    match rng.below(18) {
        0 => w.order_op(out, r, "transpose", None),
        1 => w.order_op(out, r, "switch", None),
        2 => w.order_op(out, r, "switch_wr", None),
        3 => w.order_op(out, r, "set_order", Some(*rng.pick(&ORDERS))),
        4 => w.order_op(out, r, "set_order_wr", Some(*rng.pick(&ORDERS))),
        5 | 6 => {
            let ds: Vec<(usize, usize)> = (1..=size.max(1)).filter(|d| size % d == 0).map(|d| (d, size / d)).collect();
            let (a, b) = if size == 0 { (rng.below(4), 0) } else { *rng.pick(&ds) };
            if rng.below(6) == 0 { w.reshape(out, r, a + 1, b + 1) } else { w.reshape(out, r, a, b) }
        }
        7 | 8 => {
            if rng.below(5) == 0 { w.resize(out, r, usize::MAX, 2) } else { w.resize(out, r, rng.below(6), rng.below(6)) }
        }
        9 => w.swap_vecs(out, r, "swap_rows", rng.below(nr + 2), rng.below(nr + 2)),
        10 => w.swap_vecs(out, r, "swap_cols", rng.below(nc + 2), rng.below(nc + 2)),
        11 => {
            let i = ('p', rng.below(nr + 1) as isize, rng.below(nc + 1) as isize);
            let j = if rng.coin() { ('p', rng.below(nr + 1) as isize, rng.below(nc + 1) as isize) } else { ('w', rng.below(9) as isize - 4, rng.below(9) as isize - 4) };
            w.swap_elems(out, r, i, j);
        }
        12 => {
            let others: Vec<usize> = lv.iter().copied().filter(|x| *x != r).collect();
            if let Some(&q) = others.first() { w.overwrite(out, r, q); } else { w.clear(out, r); }
        }
        13 => w.clear(out, r),
        14 => w.shrink(out, r, if rng.coin() { None } else { Some(rng.below(8)) }),
        15 => w.drop_reg(out, r),
        16 => {
            let axis = *rng.pick(&["rows", "cols"]);
            let fam = *rng.pick(&["views", "viewsmut"]);
            if rng.coin() {
                w.views(out, r, fam, axis, *rng.pick(&["-", "B", "FB"]), *rng.pick(&["-", "B"]));
            } else {
                // one vector consumed through iterator adaptors and jumps (also of exactly the remaining length and far beyond)
                let extent = if axis == "rows" { nr } else { nc };
                w.adapt(out, r, *rng.pick(&["views", "viewsmut", "nth", "nthmut"]), axis, rng.below(extent + 1));
            }
        }
        _ => {
            let kind = *rng.pick(&["row", "col", "row_mut", "col_mut"]);
            w.nth(out, r, kind, rng.below(5), "-");
        }
    }
}

/// token-only operations (arithmetic, map, iteration, conversions)
fn tok_step(out: &mut Out, w: &mut World<Tok>, rng: &mut Rng, with_mul: bool) {
    let lv = live(w);
    if lv.len() < 2 || rng.below(3) != 0 {
        generic_step(out, w, rng);
        return;
    }
    let a = *rng.pick(&lv);
    let bs: Vec<usize> = lv.iter().copied().filter(|x| *x != a).collect();
    let b = *rng.pick(&bs);
    let dst = rng.below(NREG);
    let (nr, nc) = { let m = w.regs[a].as_ref().unwrap(); (m.nrows(), m.ncols()) };
    // make the second operand conformable half of the time
    if rng.coin() {
        w.drop_reg(out, b);
        w.new_matrix(out, b, *rng.pick(&ORDERS), nr, nc, 500);
    }
    if rng.below(5) == 0 {
        // an element write through `get_mut` (History operation `setAt`): in range and one past the extents
        let (i, j) = (rng.below(nr + 2), rng.below(nc + 2));
        if rng.coin() { w.poke(out, a, i, j, &format!("p{}", rng.below(1000))); } else { w.bump(out, a, i, j); }
        return;
    }
    let pick = if with_mul { rng.below(19) } else { let x = rng.below(11); if x == 10 { 17 } else { x } };
    match pick {
        0 => { if dst != a && dst != b { w.ew(out, dst, a, b, "ref", *rng.pick(&["gen", "add", "sub", "mul", "div", "rem"])); } else { w.apply(out, a); } }
        1 => { if dst != b { w.ew(out, dst, a, b, "consume", *rng.pick(&["gen", "add", "sub"])); } else { w.apply(out, a); } }
        2 => w.ew(out, a, a, b, "assign", *rng.pick(&["gen", "add", "sub", "mul"])),
        3 => w.apply(out, a),
        4 => { if dst != a { w.map(out, dst, a, true); } else { w.apply(out, a); } }
        5 => w.map(out, dst, a, false),
        6 => { if dst != a { w.clone_reg(out, dst, a); } else { w.apply(out, a); } }
        7 => w.iter(out, a, *rng.pick(&["elems", "elems_mut", "wi", "wi_mut", "into", "into_wi"]), *rng.pick(&["-", "B", "FBB"])),
        8 => w.contains(out, a, "101"),
        9 => { w.eq(out, a, b); }
        10 => {
            // a conformable product: rhs = k x m
            w.drop_reg(out, b);
            w.new_matrix(out, b, *rng.pick(&ORDERS), nc, rng.below(4), 700);
            if dst != a && dst != b { w.mul(out, dst, a, b, "op_bb"); } else { w.mul(out, dst, a, b, "multiply"); }
        }
        11 => w.mul(out, dst, a, b, *rng.pick(&["multiply", "like", "op_ob", "op_bo"])),
        12 | 13 => {
            // conversions from rows: mostly uniform, sometimes ragged (also with a matching total)
            let nrows = rng.below(5);
            let len = rng.below(4);
            let mut lens = vec![len; nrows];
            match rng.below(4) {
                0 if nrows >= 3 => { lens[1] = len + 1; lens[2] = len.saturating_sub(1).max(0); if len == 0 { lens[2] = 0; lens[0] = 1; } }
                1 if nrows >= 2 => { let p = rng.below(nrows); lens[p] = len + 1 + rng.below(2); }
                _ => {}
            }
            let kind = *rng.pick(&["vec_vec", "slice_vec", "iter", "array_vec", "iter"]);
            w.rows(out, dst, kind, &lens);
        }
        14 => w.ctor(out, dst, *rng.pick(&["with_value", "with_default", "with_init"]), rng.below(5), rng.below(5)),
        15 => w.from_vec(out, dst, rng.coin(), rng.below(6)),
        16 => w.scgen(out, dst, a, *rng.pick(&["ref", "consume", "assign"])),
        _ => {
            // a resize during which one caller-code invocation panics; the history goes on with the survivor
            let (tr, tc) = (rng.below(5), rng.below(5));
            let callbacks = (tr * tc).abs_diff(nr * nc) as u64;
            let k = if callbacks == 0 || rng.below(5) == 0 { callbacks + rng.below(2) as u64 } else { rng.below(callbacks as usize) as u64 };
            w.fresize(out, a, k, tr, tc);
        }
    }
}

fn end_of_history<E: Elem>(out: &mut Out, w: &mut World<E>) {
    for r in 0..8 {
        check_addresses(out, w, r, "end of history");
        if w.regs[r].is_some() { w.drop_reg(out, r); }
    }
}

pub fn run_c01(out: &mut Out, rng: &mut Rng, tier: Tier) -> String {
    ledger_reset();
    let (n, len) = if tier == Tier::Quick { (300, 14) } else { (4000, 40) };
    // (A) token histories with the ledger delta of every operation observed
    for k in 0..n {
        out.case(&format!("history {k} elem=tok ledger-deltas"));
        let mut w = World::<Tok>::new(out);
        out.led_mode = true;
        let steps = 4 + rng.below(len);
        for _ in 0..steps { tok_step(out, &mut w, rng, false); }
        end_of_history(out, &mut w);
        out.led_mode = false;
        let s = snapshot();
        if s.live != 0 || s.double_drops != 0 {
            out.oracle_fail(&format!("history {k}: after dropping every matrix {} tokens are still live and {} were dropped twice", s.live, s.double_drops));
            ledger_reset();
        }
        out.count("histories:tok-ledger");
        out.nontrivial();
    }
    // (B) token histories over all operations including the products
    for k in 0..n / 2 {
        out.case(&format!("history {k} elem=tok all-operations"));
        let mut w = World::<Tok>::new(out);
        let steps = 4 + rng.below(len);
        for _ in 0..steps { tok_step(out, &mut w, rng, true); }
        end_of_history(out, &mut w);
        let s = snapshot();
        if s.live != 0 || s.double_drops != 0 {
            out.oracle_fail(&format!("history {k}: after dropping every matrix {} tokens are still live and {} were dropped twice", s.live, s.double_drops));
            ledger_reset();
        }
        out.count("histories:tok-all");
        out.nontrivial();
    }
    // (B') short histories that start from every kind of conversion on uniform and ragged inputs
    // (including ragged inputs whose total length fills a rectangle), then go on with other operations
    for lens in [vec![3usize, 2, 4], vec![2, 3, 1], vec![1, 2, 0], vec![2, 1, 3], vec![2, 2, 2], vec![0, 0], vec![1, 3], vec![4, 4, 3, 5], vec![]] {
        for kind in ["vec_vec", "slice_vec", "iter", "array_vec", "iter_liar_rows", "iter_liar_over", "iter_liar_under"] {
            out.case(&format!("history conversion kind={kind} lens={:?}", lens));
            let mut w = World::<Tok>::new(out);
            w.rows(out, 0, kind, &lens);
            if w.regs[0].is_some() {
                for _ in 0..6 { tok_step(out, &mut w, rng, true); }
            }
            end_of_history(out, &mut w);
            let s = snapshot();
            if s.live != 0 || s.double_drops != 0 {
                out.oracle_fail(&format!("conversion history: {} tokens still live, {} dropped twice", s.live, s.double_drops));
                ledger_reset();
            }
            out.nontrivial();
        }
    }
    // one history on matrices beyond the size thresholds at which an implementation might switch algorithms
    for &(nr, nc) in LARGE[..3].iter().chain(VERY_LARGE.iter()) {
        for order in ORDERS {
            out.case(&format!("history large shape={nr}x{nc} order={} elem=tok ledger-deltas", ord_ch(order)));
            out.nontrivial();
            let mut w = World::<Tok>::new(out);
            out.led_mode = true;
            w.new_matrix(out, 0, order, nr, nc, 1);
            w.order_op(out, 0, "transpose", None);
            w.order_op(out, 0, "switch", None);
            w.reshape(out, 0, nr, nc);
            w.swap_vecs(out, 0, "swap_rows", 0, nr - 1);
            w.swap_vecs(out, 0, "swap_cols", 0, nc - 1);
            w.new_matrix(out, 1, order, 2, 3, 900000);
            w.overwrite(out, 0, 1);
            w.resize(out, 0, nr - 1, nc + 1);
            w.order_op(out, 0, "set_order", Some(matreex::Order::ColMajor));
            w.clone_reg(out, 2, 0);
            w.ew(out, 3, 0, 2, "consume", "gen");
            w.clear(out, 2);
            end_of_history(out, &mut w);
            out.led_mode = false;
        }
    }
    // products whose result is not square, in all four order combinations and all call forms, inside a
    // history that goes on with the result (the random histories rarely multiply a column-major
    // operand by a matrix of a different width)
    for (n, k, m) in [(2usize, 3usize, 4usize), (3, 1, 2), (1, 2, 3), (4, 2, 1)] {
        for ao in ORDERS {
            for bo in ORDERS {
                out.case(&format!("history products {n}x{k} * {k}x{m} orders={}{}", ord_ch(ao), ord_ch(bo)));
                out.nontrivial();
                let mut w = World::<Tok>::new(out);
                for kind in ["multiply", "like", "op_bb", "op_ob", "op_bo", "op_oo"] {
                    w.new_matrix(out, 0, ao, n, k, 1);
                    w.new_matrix(out, 1, bo, k, m, 500);
                    w.mul(out, 2, 0, 1, kind);
                    if w.regs[2].is_some() {
                        w.order_op(out, 2, "transpose", None);
                        w.resize(out, 2, n, m);
                    }
                }
                end_of_history(out, &mut w);
            }
        }
    }
    // index resolution through caller-defined (inconsistent) accessors
    crate::c04::stateful_small(out);
    // (C) other element types: 4-byte Copy, unit, zero-sized with drop glue
    for k in 0..n / 3 {
        out.case(&format!("history {k} elem=u32"));
        let mut w = World::<u32>::new(out);
        for _ in 0..4 + rng.below(len) { generic_step(out, &mut w, rng); }
        end_of_history(out, &mut w);
        out.case(&format!("history {k} elem=unit"));
        let mut w = World::<()>::new(out);
        for _ in 0..4 + rng.below(len) { generic_step(out, &mut w, rng); }
        end_of_history(out, &mut w);
        out.case(&format!("history {k} elem=zst-with-drop ledger-deltas"));
        let mut w = World::<Zd>::new(out);
        out.led_mode = true;
        for _ in 0..4 + rng.below(len) { generic_step(out, &mut w, rng); }
        end_of_history(out, &mut w);
        out.led_mode = false;
        let s = snapshot();
        if s.zst_live != 0 || s.zst_overdrops != 0 {
            out.oracle_fail(&format!("zero-sized elements with drop glue at the end of the history: created - dropped = {}, drops beyond creations = {}", s.zst_live, s.zst_overdrops));
        }
        out.count("histories:other-elements");
        out.nontrivial();
    }
    format!(
        "{n} random histories (4..{} operations over 4 registers) on destructor tokens with the ledger delta (tokens created / dropped) of every operation observed: construction, drop, transpose, the four order operations, reshape (valid / invalid), resize (grow / shrink / overflowing), swap_rows / swap_cols / swap (plain and wrapping, valid / invalid), overwrite, clear, shrink_to(_fit), element writes and in-place element updates through get_mut (valid / invalid), apply, map, map_ref, clone, \
         generic and named elementwise operations in the three ownership variants (conformable / not), element iterators incl. consuming ones, contains, ==, row/column views of all families, iter_nth_*; {} more token histories adding the products (multiply, multiplication_like_operation, * operators) and generic scalar operations; {} histories each on 4-byte Copy elements, the unit type and a zero-sized type with drop glue. \
         Shapes 0..=5 x 0..=5 including r x 0, 0 x c, 0 x 0. Oracle after every operation: nrows*ncols == size, every coordinate through get() against the independent row-of-rows reference, order tag; at the end of every history: addresses of all coordinates pairwise distinct and in range, every matrix dropped, every token ever created dropped exactly once (live = 0, no double drop). All cases non-trivial",
        4 + len, n / 2, n / 3
    )
}
