//! C16: the parallel helpers on real rayon pools of many sizes, with per-element run-time jitter,
//! against the sequential operations and the model; per-element invocation counters.

use crate::common::*;
use matreex::parallel::*;
use matreex::{Index, Matrix, Order};
use std::collections::HashSet;
use std::sync::atomic::{AtomicU8, Ordering};
use std::sync::Mutex;

fn f(x: u64) -> u64 { x.wrapping_mul(3).wrapping_add(7) }

fn digest_vals(l: &[u64]) -> String {
    let sum = l.iter().fold(0u64, |a, &x| a.wrapping_add(x));
    let mix = l.iter().fold(17u64, |a, &x| a.wrapping_mul(31).wrapping_add(x));
    format!("n={} sum={sum} mix={mix}", l.len())
}

fn digest_items(l: &[(Index, u64)]) -> String {
    let sum = l.iter().fold(0u64, |a, (i, x)| a.wrapping_add(((i.row as u64).wrapping_mul(1000003).wrapping_add((i.col as u64).wrapping_mul(10007)).wrapping_add(*x)).wrapping_mul(x.wrapping_add(1))));
    format!("n={} isum={sum}", l.len())
}

/// perturb the run time of one element's closure call
fn jitter(x: u64, seed: u64) {
    let n = (x.wrapping_mul(0x9E3779B97F4A7C15) ^ seed).rotate_left(17) % 97;
    let mut acc = 0u64;
    for i in 0..n * 8 { acc = acc.wrapping_add(std::hint::black_box(i)); }
    std::hint::black_box(acc);
}

struct Probe {
    counters: Vec<AtomicU8>,
    threads: Mutex<HashSet<std::thread::ThreadId>>,
}

impl Probe {
    fn new(n: usize) -> Self { Probe { counters: (0..n).map(|_| AtomicU8::new(0)).collect(), threads: Mutex::new(HashSet::new()) } }
    fn hit(&self, x_orig: u64) {
        let k = (x_orig - 1000) as usize;
        self.counters[k].fetch_add(1, Ordering::Relaxed);
        let id = std::thread::current().id();
        let mut t = self.threads.lock().unwrap();
        t.insert(id);
    }
    fn check(&self, out: &mut Out, what: &str) -> usize {
        let bad = self.counters.iter().filter(|c| c.load(Ordering::Relaxed) != 1).count();
        if bad != 0 {
            let first = self.counters.iter().position(|c| c.load(Ordering::Relaxed) != 1).unwrap();
            out.oracle_fail(&format!("{what}: the closure was not invoked exactly once for {bad} elements (e.g. element {first}: {} times)", self.counters[first].load(Ordering::Relaxed)));
        }
        self.threads.lock().unwrap().len()
    }
}

fn one(out: &mut Out, order: Order, nr: usize, nc: usize, pool_size: usize, seed: u64) {
    let pool = rayon::ThreadPoolBuilder::new().num_threads(pool_size).build().unwrap();
    let n = nr * nc;
    let base = || mk(order, nr, nc, |k| 1000 + k as u64);
    let seq_vals: Vec<u64> = { let m = base(); m.iter_elements().map(|&x| f(x)).collect() };
    let seq_items: Vec<(Index, u64)> = { let m = base(); m.iter_elements_with_index().map(|(i, &x)| (i, x)).collect() };
    for kind in ["apply", "map", "map_ref", "iter", "iter_mut", "into", "wi", "wi_mut", "into_wi"] {
        let op = format!("par {kind} {} {nr} {nc} {pool_size} {seed}", ord_ch(order));
        out.announce(&op);
        let probe = Probe::new(n);
        let res: Option<String> = catch(|| pool.install(|| {
            let mut m = base();
            match kind {
                "apply" => {
                    m.par_apply(|e| { probe.hit(*e); jitter(*e, seed); *e = f(*e); });
                    let v: Vec<u64> = m.iter_elements().copied().collect();
                    if v != seq_vals { return format!("MISMATCH apply"); }
                    if (m.order(), m.nrows(), m.ncols()) != (order, nr, nc) { return format!("MISMATCH apply: shape or order changed"); }
                    format!("ok {} {}x{} {}", ord_ch(m.order()), m.nrows(), m.ncols(), digest_vals(&v))
                }
                "map" => match m.par_map(|e| { probe.hit(e); jitter(e, seed); f(e) }) {
                    Err(e) => format!("err {}", err_name(e)),
                    Ok(r) => { let v: Vec<u64> = r.iter_elements().copied().collect(); if v != seq_vals { return "MISMATCH map".into(); } if (r.order(), r.nrows(), r.ncols()) != (order, nr, nc) { return format!("MISMATCH map: result is {}x{} {:?}, the source was {nr}x{nc} {:?}", r.nrows(), r.ncols(), r.order(), order); } format!("ok {} {}x{} {}", ord_ch(r.order()), r.nrows(), r.ncols(), digest_vals(&v)) }
                },
                "map_ref" => match m.par_map_ref(|e| { probe.hit(*e); jitter(*e, seed); f(*e) }) {
                    Err(e) => format!("err {}", err_name(e)),
                    Ok(r) => { let v: Vec<u64> = r.iter_elements().copied().collect(); if v != seq_vals { return "MISMATCH map_ref".into(); } if (r.order(), r.nrows(), r.ncols()) != (order, nr, nc) { return format!("MISMATCH map_ref: result is {}x{} {:?}, the source was {nr}x{nc} {:?}", r.nrows(), r.ncols(), r.order(), order); } format!("ok {} {}x{} {}", ord_ch(r.order()), r.nrows(), r.ncols(), digest_vals(&v)) }
                },
                "iter" => { let v: Vec<u64> = m.par_iter_elements().map(|e| { probe.hit(*e); jitter(*e, seed); f(*e) }).collect(); if v != seq_vals { return "MISMATCH iter".into(); } format!("ok {}", digest_vals(&v)) }
                "iter_mut" => { let v: Vec<u64> = m.par_iter_elements_mut().map(|e| { probe.hit(*e); jitter(*e, seed); *e = f(*e); *e }).collect(); if v != seq_vals { return "MISMATCH iter_mut".into(); } format!("ok {}", digest_vals(&v)) }
                "into" => { let v: Vec<u64> = m.into_par_iter_elements().map(|e| { probe.hit(e); jitter(e, seed); f(e) }).collect(); if v != seq_vals { return "MISMATCH into".into(); } format!("ok {}", digest_vals(&v)) }
                "wi" => { let v: Vec<(Index, u64)> = m.par_iter_elements_with_index().map(|(i, e)| { probe.hit(*e); jitter(*e, seed); (i, *e) }).collect(); items_check(&v, &seq_items) }
                "wi_mut" => { let v: Vec<(Index, u64)> = m.par_iter_elements_mut_with_index().map(|(i, e)| { probe.hit(*e); jitter(*e, seed); (i, *e) }).collect(); items_check(&v, &seq_items) }
                _ => { let v: Vec<(Index, u64)> = m.into_par_iter_elements_with_index().map(|(i, e)| { probe.hit(e); jitter(e, seed); (i, e) }).collect(); items_check(&v, &seq_items) }
            }
        }));
        let obs = match res {
            None => { out.oracle_fail(&format!("{op}: panicked")); "panic".to_string() }
            Some(s) => {
                if s.starts_with("MISMATCH") {
                    out.oracle_fail(&format!("{op}: the parallel result differs from the sequential one ({s})"));
                }
                s
            }
        };
        let threads = probe.check(out, &op);
        out.count(&format!("worker-threads-seen:{}", threads.min(pool_size)));
        out.count(&format!("pool:{pool_size}"));
        out.observe(&obs);
    }
}

fn items_check(v: &[(Index, u64)], seq: &[(Index, u64)]) -> String {
    let mut a: Vec<(usize, usize, u64)> = v.iter().map(|(i, x)| (i.row, i.col, *x)).collect();
    let mut b: Vec<(usize, usize, u64)> = seq.iter().map(|(i, x)| (i.row, i.col, *x)).collect();
    a.sort();
    b.sort();
    if a != b { return "MISMATCH items".into(); }
    format!("ok {}", digest_items(v))
}

fn capacity(out: &mut Out) {
    out.case("par capacity decisions (zero-sized source)");
    out.nontrivial();
    let pool = rayon::ThreadPoolBuilder::new().num_threads(4).build().unwrap();
    for &n in &[0usize, 1, 5, 1 << 20, isize::MAX as usize / 8, isize::MAX as usize / 8 + 1, isize::MAX as usize, usize::MAX] {
        for (es, kind) in [(1usize, "par_map"), (8, "par_map"), (8, "par_map_ref"), (8, "map")] {
            let too_big = es as u128 * n as u128 > isize::MAX as u128;
            if !too_big && n > 4096 { continue; }
            let op = format!("parcap {kind} {es} {n}");
            out.announce(&op);
            let src = || { let mut v: Vec<()> = Vec::new(); unsafe { v.set_len(n) }; Matrix::from_row(v) };
            let res: Option<Result<usize, matreex::Error>> = catch(|| pool.install(|| match (kind, es) {
                ("par_map", 1) => src().par_map(|_| 0u8).map(|m| m.size()),
                ("par_map", _) => src().par_map(|_| 0u64).map(|m| m.size()),
                ("par_map_ref", _) => src().par_map_ref(|_| 0u64).map(|m| m.size()),
                _ => src().map(|_| 0u64).map(|m| m.size()),
            }));
            let obs = match res { None => "panic".to_string(), Some(Ok(k)) => format!("ok {k}"), Some(Err(e)) => format!("err {}", err_name(e)) };
            let want = if too_big { "err CapacityOverflow".to_string() } else { format!("ok {n}") };
            if obs != want { out.oracle_fail(&format!("{op}: expected `{want}`, implementation gave `{obs}`")); }
            out.observe(&obs);
        }
    }
}

pub fn run_c16(out: &mut Out, rng: &mut Rng, tier: Tier) -> String {
    let shapes: Vec<(usize, usize)> = vec![(0, 0), (0, 3), (4, 0), (1, 1), (2, 3), (1, 7), (9, 1), (5, 5), (7, 3), (16, 16), (40, 50), (97, 101), (3, 683), (1, 4099), (300, 334)];
    let pools: Vec<usize> = if tier == Tier::Quick { vec![1, 2, 3, 4, 7, 16, 32] } else { (1..=32).collect() };
    let mut cases = 0;
    for &(nr, nc) in &shapes {
        for order in ORDERS {
            for &p in &pools {
                // quick: the larger shapes only on a few pool sizes
                if tier == Tier::Quick && nr * nc > 5000 && !(p == 2 || p == 16) { continue; }
                if tier == Tier::Quick && nr * nc > 50000 && order == Order::ColMajor { continue; }
                out.case(&format!("par shape={nr}x{nc}{} pool={p}", ord_ch(order)));
                one(out, order, nr, nc, p, rng.next());
                if nr * nc > 1 { out.nontrivial(); }
                cases += 1;
            }
        }
    }
    capacity(out);
    format!(
        "{cases} configurations: shapes 0x0, 0x3, 4x0, 1x1, 2x3, 1x7, 9x1 (row and column vectors in both orders), 5x5, 7x3, 16x16, 40x50, 97x101, 3x683, 1x4099, 300x334 (from fewer elements than threads to 100200 elements, sizes not multiples of 1024 / 4096) x both orders x thread-pool sizes {:?} (dedicated rayon pools), \
         each running par_apply, par_map, par_map_ref, par_iter_elements, par_iter_elements_mut, into_par_iter_elements and the three *_with_index forms with a per-element run-time jitter derived from the run's PRNG (work splitting / stealing is perturbed); CapacityOverflow decisions of par_map / par_map_ref / map on zero-sized sources of up to usize::MAX elements. \
         Oracle: the parallel result equals the sequential operation's result element for element (multiset of (index, element) for the indexed forms), shape and order copied, per-element invocation counters all exactly 1; the number of distinct worker threads seen is recorded in the distribution. A case = one shape x order x pool size",
        pools
    )
}
