//! Correspondence harness: runs the real crate on generated cases, writes the operations
//! (`ops.txt`, replayed on the Lean model by the driver), the implementation's canonical
//! observations (`impl.txt`) and run statistics (`meta.json`); evaluates each property's own
//! oracle on the implementation's behaviour.
//!
//! usage: harness <property> <quick|thorough> <seed> <outdir>

mod common;
mod c01;
mod c02;
mod c03;
mod c04;
mod c05;
mod c06;
mod c07;
mod c08;
mod c09;
mod c10;
mod c11;
mod c12;
mod c14;
mod c15;
mod c16;
mod c17;
mod c18;
mod c19;
mod c20;
mod hist;
mod tok;

use common::{Out, Rng, Tier};

fn main() {
    let args: Vec<String> = std::env::args().collect();
    if args.len() != 5 {
        eprintln!("usage: harness <property> <quick|thorough> <seed> <outdir>");
        std::process::exit(2);
    }
    let tier = if args[2] == "thorough" { Tier::Thorough } else { Tier::Quick };
    let seed: u64 = args[3].parse().unwrap_or(0);
    let mut rng = Rng(seed ^ 0x6d61_7472_6565_7821);
    let mut out = Out::new(std::path::Path::new(&args[4]));
    std::panic::set_hook(Box::new(|_| {}));
    let rule = match args[1].as_str() {
        "C01" => c01::run_c01(&mut out, &mut rng, tier),
        "C02" => c02::run_c02(&mut out, &mut rng, tier),
        "C03" => c03::run_c03(&mut out, &mut rng, tier),
        "C04" => c04::run_c04(&mut out, &mut rng, tier),
        "C09" => c09::run_c09(&mut out, &mut rng, tier),
        "C10" => c10::run_c10(&mut out, &mut rng, tier),
        "C14" => c14::run_c14(&mut out, &mut rng, tier),
        "C11" => c11::run_c11(&mut out, &mut rng, tier),
        "C12" => c12::run_c12(&mut out, &mut rng, tier),
        "C15" => c15::run_c15(&mut out, &mut rng, tier),
        "C20" => c20::run_c20(&mut out, &mut rng, tier),
        "C19" => c19::run_c19(&mut out, &mut rng, tier),
        "C16" => c16::run_c16(&mut out, &mut rng, tier),
        "C17" => c17::run_c17(&mut out, &mut rng, tier),
        "C18" => c18::run_c18(&mut out, &mut rng, tier),
        "C13" => c04::run_c13(&mut out, &mut rng, tier),
        "C05" => c05::run_c05(&mut out, &mut rng, tier),
        "C06" => c06::run_c06(&mut out, &mut rng, tier),
        "C07" => c07::run_c07(&mut out, &mut rng, tier),
        "C08" => c08::run_c08(&mut out, &mut rng, tier),
        other => {
            eprintln!("unknown property {other}");
            std::process::exit(2);
        }
    };
    out.finish(&rule);
    println!("HARNESS-DONE");
}
