//! C19: constructors, conversions from rows and macros.

use crate::common::*;
use crate::hist::*;
use crate::tok::*;
use matreex::{col_vec, matrix, row_vec, Matrix};


fn macros(out: &mut Out, w: &mut World<Tok>) {
    // macro invocations need literal shapes: a fixed, representative set of each arm
    fn t(s: &str) -> Tok { Tok::new(s) }
    #[allow(non_snake_case)]
    fn name_shape_fn(rows: &Vec<Vec<String>>, name: &str, a: usize, b: usize) -> (usize, usize) {
        let _ = rows;
        match name { "matrix" => (a, b), "row_vec" => (1, a), _ => (a, 1) }
    }
    let s = |v: &[&str]| -> Vec<String> { v.iter().map(|x| x.to_string()).collect() };
    macro_rules! go {
        ($name:expr, $arm:expr, $a:expr, $b:expr, $e:expr, $rows:expr) => {{
            let op = format!("macro 2 {} {} {} {}", $name, $arm, $a, $b);
            out.announce(&op);
            let res = catch(|| { let x: Matrix<Tok> = $e; x });
            let rows: Vec<Vec<String>> = $rows;
            let (nr, nc) = name_shape_fn(&rows, $name, $a, $b);
            let obs = match res {
                None => { out.oracle_fail(&format!("{op}: panicked")); "panic".to_string() }
                Some(x) => {
                    let got: Vec<Vec<String>> = if x.nrows() * x.ncols() == 0 { Vec::new() } else { (0..x.nrows()).map(|r| (0..x.ncols()).map(|c| x[(r, c)].val.clone()).collect()).collect() };
                    let want: Vec<Vec<String>> = if nr * nc == 0 { Vec::new() } else { rows.clone() };
                    if (x.nrows(), x.ncols()) != (nr, nc) || got != want || x.order() != matreex::Order::RowMajor {
                        out.oracle_fail(&format!("{op}: built {}x{} {:?}, expected {nr}x{nc} {:?}", x.nrows(), x.ncols(), got, want));
                    }
                    format!("ok | {}", st_str(&x))
                }
            };
            out.observe(&obs);
        }};
    }
    go!("matrix", "empty", 0, 0, matrix![], vec![]);
    go!("matrix", "fill", 2, 3, matrix![[t("e"); 3]; 2], vec![s(&["e'", "e'", "e'"]), s(&["e'", "e'", "e"])]);
    go!("matrix", "fill", 0, 3, matrix![[t("e"); 3]; 0], vec![]);
    go!("matrix", "fill", 3, 0, matrix![[t("e"); 0]; 3], vec![]);
    go!("matrix", "rep", 2, 3, matrix![[t("1"), t("2"), t("3")]; 2], vec![s(&["1'", "2'", "3'"]), s(&["1", "2", "3"])]);
    go!("matrix", "rep", 3, 1, matrix![[t("1")]; 3], vec![s(&["1'"]), s(&["1'"]), s(&["1"])]);
    go!("matrix", "rep", 0, 3, matrix![[t("1"), t("2"), t("3")]; 0], vec![]);
    go!("matrix", "rep", 1, 2, matrix![[t("1"), t("2")]; 1], vec![s(&["1", "2"])]);
    go!("matrix", "rows", 2, 0, matrix![[], []], vec![]);
    go!("matrix", "rows", 1, 0, matrix![[]], vec![]);
    go!("matrix", "rows", 2, 3, matrix![[t("1"), t("2"), t("3")], [t("4"), t("5"), t("6")]], vec![s(&["1", "2", "3"]), s(&["4", "5", "6"])]);
    go!("matrix", "rows", 3, 1, matrix![[t("1")], [t("2")], [t("3")]], vec![s(&["1"]), s(&["2"]), s(&["3"])]);
    go!("matrix", "rows", 1, 2, matrix![[t("1"), t("2")],], vec![s(&["1", "2"])]);
    go!("row_vec", "list", 3, 0, row_vec![t("1"), t("2"), t("3")], vec![s(&["1", "2", "3"])]);
    go!("row_vec", "rep1", 4, 0, row_vec![t("e"); 4], vec![s(&["e'", "e'", "e'", "e"])]);
    go!("row_vec", "rep1", 0, 0, row_vec![t("e"); 0], vec![]);
    go!("col_vec", "list", 3, 0, col_vec![t("1"), t("2"), t("3")], vec![s(&["1"]), s(&["2"]), s(&["3"])]);
    go!("col_vec", "rep1", 2, 0, col_vec![t("e"); 2], vec![s(&["e'"]), s(&["e"])]);
    go!("col_vec", "rep1", 0, 0, col_vec![t("e"); 0], vec![]);
    go!("col_vec", "rep1", 1, 0, col_vec![t("e"); 1], vec![s(&["e"])]);
    go!("row_vec", "rep1", 1, 0, row_vec![t("e"); 1], vec![s(&["e"])]);
    go!("row_vec", "list", 1, 0, row_vec![t("1")], vec![s(&["1"])]);
    let _ = w;
}

pub fn run_c19(out: &mut Out, _rng: &mut Rng, tier: Tier) -> String {
    ledger_reset();
    let maxrows = 4;
    let maxlen = if tier == Tier::Quick { 3 } else { 4 };
    // uniform inputs and inputs with one deviating row at every position (shorter and longer),
    // plus ragged inputs whose total length matches a rectangle
    let mut inputs: Vec<Vec<usize>> = vec![vec![]];
    for nrows in 1..=maxrows {
        for len in 0..=maxlen {
            inputs.push(vec![len; nrows]);
            for pos in 0..nrows {
                for dev in [len.wrapping_sub(1), len + 1, len + 2] {
                    if dev == usize::MAX || dev == len { continue; }
                    let mut v = vec![len; nrows];
                    v[pos] = dev;
                    inputs.push(v);
                }
            }
        }
    }
    inputs.extend([vec![3, 2, 4], vec![2, 3, 1], vec![1, 3], vec![3, 1], vec![2, 2, 1, 3], vec![0, 2], vec![2, 0], vec![0, 0, 1]]);
    // many rows / long rows (beyond 1024 and 4096 elements), uniform and with one deviating row late in the input
    inputs.extend([vec![300; 257], vec![65; 64], vec![1400; 3], vec![1; 4099], { let mut v = vec![65; 64]; v[63] = 64; v }, { let mut v = vec![65; 64]; v[40] = 66; v }, { let mut v = vec![1; 1100]; v[1099] = 2; v }]);
    for lens in &inputs {
        out.case(&format!("rows lens={:?}", lens));
        let mut w = World::<Tok>::new(out);
        let uniform = lens.iter().all(|l| *l == lens.first().copied().unwrap_or(0));
        for kind in ["vec_vec", "slice_vec", "iter", "array_vec", "iter_liar_rows", "iter_liar_over", "iter_liar_under"] {
            if kind == "array_vec" && lens.len() > 5 { continue; }
            w.rows(out, 0, kind, lens);
        }
        if uniform && lens.len() <= 4 && lens.first().copied().unwrap_or(0) <= 4 {
            for kind in ["array", "vec_array", "slice_array"] {
                w.rows(out, 0, kind, lens);
            }
        }
        if w.regs[0].is_some() { w.drop_reg(out, 0); }
        out.count(if uniform { "input:uniform" } else { "input:ragged" });
        if lens.iter().sum::<usize>() > 1 { out.nontrivial(); }
    }
    for n in 0..=5 {
        out.case(&format!("from_row/from_col n={n}"));
        let mut w = World::<Tok>::new(out);
        w.from_vec(out, 0, false, n);
        w.from_vec(out, 1, true, n);
        w.drop_reg(out, 0);
        w.drop_reg(out, 1);
        if n > 1 { out.nontrivial(); }
    }
    for nr in 0..=4 {
        for nc in 0..=4 {
            out.case(&format!("ctor shape={nr}x{nc}"));
            let mut w = World::<Tok>::new(out);
            for kind in ["with_value", "with_default", "with_init"] {
                w.ctor(out, 0, kind, nr, nc);
            }
            if w.regs[0].is_some() { w.drop_reg(out, 0); }
            if nr * nc > 1 { out.nontrivial(); }
        }
    }
    // zero-sized element types: the initializer must still be called exactly once per position
    for (nr, nc) in [(0usize, 0usize), (0, 3), (3, 0), (1, 1), (2, 3), (4, 4), (1, 1000)] {
        out.case(&format!("ctor zero-sized shape={nr}x{nc}"));
        out.op("elem unit", "ok");
        let op = format!("zctor with_init {nr} {nc}");
        out.announce(&op);
        let calls = std::cell::Cell::new(0usize);
        let bad = std::cell::Cell::new(0usize);
        let res = catch(|| Matrix::<Z8>::with_initializer((nr, nc), |i| {
            calls.set(calls.get() + 1);
            if i.row >= nr || i.col >= nc || calls.get() > nr * nc + 8 { bad.set(bad.get() + 1); if calls.get() > nr * nc + 8 { panic!("runaway initializer"); } }
            Z8
        }));
        let obs = match res {
            Some(Ok(m)) => format!("ok {}x{} calls={}", m.nrows(), m.ncols(), calls.get()),
            Some(Err(e)) => format!("err {}", err_name(e)),
            None => "panic".to_string(),
        };
        if obs != format!("ok {nr}x{nc} calls={}", nr * nc) || bad.get() != 0 {
            out.oracle_fail(&format!("{op}: `{obs}`, {} calls outside the shape (expected exactly {} calls)", bad.get(), nr * nc));
        }
        out.observe(&obs);
        if nr * nc > 1 { out.nontrivial(); }
    }
    out.case("macros");
    {
        let mut w = World::<Tok>::new(out);
        macros(out, &mut w);
        out.nontrivial();
    }
    let s = snapshot();
    if s.double_drops > 0 || s.live != 0 {
        out.oracle_fail(&format!("ledger at the end of the run: {} tokens still live, {} double drops (elements of a rejected owned input must be dropped exactly once)", s.live, s.double_drops));
    }
    out.exhaustive = true;
    format!(
        "row conversions: zero rows, and for every row count 1..={maxrows} and first-row length 0..={maxlen}: the uniform input and every input with one deviating row (one shorter, one or two longer) at every position, plus ragged inputs whose total matches a rectangle \
         (3,2,4 / 2,3,1 / 1,3 / 3,1 / 2,2,1,3 / 0,2 / 2,0 / 0,0,1), through TryFrom<Vec<Vec<T>>>, TryFrom<&[Vec<T>]>, TryFrom<[Vec<T>; C]>, FromIterator, and (uniform inputs) From<[[T; C]; R]>, From<Vec<[T; C]>>, From<&[[T; C]]>; from_row/from_col for n = 0..=5; \
         with_value / with_default / with_initializer (calls recorded) for every shape 0..=4 x 0..=4; 22 literal macro invocations covering every arm (zero rows, zero-length rows and single elements included) of matrix!/row_vec!/col_vec!. Elements are tokens with destructors (clones visible as primes). \
         Oracle: rows in order or LengthInconsistent / panic, never accepted or truncated; initializer call sequence; ledger balanced at the end (rejected owned inputs dropped exactly once). A case = one input through all conversion kinds"
    )
}
