//! Register-file interpreter: executes protocol operations on real matrices, prints the canonical
//! observation, and keeps — independently of the crate and of the Lean model — a plain row-of-rows
//! reference (`Ref`) on which the property's oracle is evaluated after every operation.

use crate::common::*;
use crate::tok::*;
use matreex::{Matrix, Order};

/// plain row-of-rows reference model (the oracle's view of a matrix)
#[derive(Clone, Debug, PartialEq)]
pub struct Ref {
    pub nrows: usize,
    pub ncols: usize,
    pub rows: Vec<Vec<String>>,
}

impl Ref {
    pub fn from_mem(order: Order, nrows: usize, ncols: usize, mem: &[String]) -> Ref {
        if nrows == 0 || ncols == 0 {
            // element-less shapes (extents may be huge): no rows are materialised
            return Ref { nrows, ncols, rows: Vec::new() };
        }
        let rows = (0..nrows)
            .map(|r| {
                (0..ncols)
                    .map(|c| match order {
                        Order::RowMajor => mem[r * ncols + c].clone(),
                        Order::ColMajor => mem[c * nrows + r].clone(),
                    })
                    .collect()
            })
            .collect();
        Ref { nrows, ncols, rows }
    }
    pub fn transposed(&self) -> Ref {
        if self.nrows == 0 || self.ncols == 0 {
            return Ref { nrows: self.ncols, ncols: self.nrows, rows: Vec::new() };
        }
        Ref {
            nrows: self.ncols,
            ncols: self.nrows,
            rows: (0..self.ncols).map(|c| (0..self.nrows).map(|r| self.rows[r][c].clone()).collect()).collect(),
        }
    }
    /// memory-order sequence for the given order
    pub fn mem(&self, order: Order) -> Vec<String> {
        if self.nrows == 0 || self.ncols == 0 {
            return Vec::new();
        }
        match order {
            Order::RowMajor => self.rows.iter().flatten().cloned().collect(),
            Order::ColMajor => (0..self.ncols).flat_map(|c| (0..self.nrows).map(move |r| (r, c))).map(|(r, c)| self.rows[r][c].clone()).collect(),
        }
    }
}

pub struct World<E: Elem> {
    pub regs: Vec<Option<Matrix<E>>>,
    pub refs: Vec<Option<(Order, Ref)>>,
}

pub fn st_str<E: Elem>(m: &Matrix<E>) -> String {
    let mem: Vec<String> = m.iter_elements().map(|e| e.show()).collect();
    format!("st {} {}x{} [{}]", ord_ch(m.order()), m.nrows(), m.ncols(), mem.join(","))
}

/// caller-defined index whose accessors answer (row, col) on their first call and an
/// out-of-range / different coordinate on every later call, and count their calls
pub struct Flip {
    row: usize,
    col: usize,
    pub calls: std::cell::Cell<(usize, usize)>,
}
impl Flip {
    pub fn new(row: usize, col: usize) -> Flip { Flip { row, col, calls: std::cell::Cell::new((0, 0)) } }
}
impl matreex::index::AsIndex for &Flip {
    fn row(&self) -> usize {
        let (a, b) = self.calls.get();
        self.calls.set((a + 1, b));
        if a == 0 { self.row } else { self.row.wrapping_add(1) }
    }
    fn col(&self) -> usize {
        let (a, b) = self.calls.get();
        self.calls.set((a, b + 1));
        if b == 0 { self.col } else { 0 }
    }
}

/// every shape argument is `impl Into<Shape>`: the spelling (tuple, array, `Shape::new`) rotates
/// with the extents, so that all three conversions are exercised by every generator
macro_rules! spelled {
    ($nr:expr, $nc:expr, |$sh:ident| $body:expr) => {
        match (($nr % 3) + 2 * ($nc % 3)) % 3 {
            0 => { let $sh = ($nr, $nc); $body }
            1 => { let $sh = [$nr, $nc]; $body }
            _ => { let $sh = matreex::Shape::new($nr, $nc); $body }
        }
    };
}
pub fn spelling(nr: usize, nc: usize) -> &'static str {
    match ((nr % 3) + 2 * (nc % 3)) % 3 { 0 => "(nrows, ncols)", 1 => "[nrows, ncols]", _ => "Shape::new(nrows, ncols)" }
}

impl<E: Elem> World<E> {
    pub fn new(out: &mut Out) -> Self {
        out.op(&format!("elem {}", E::KIND), "ok");
        World { regs: (0..8).map(|_| None).collect(), refs: (0..8).map(|_| None).collect() }
    }

    /// the C01 oracle on one register: extents multiply to the size, every coordinate resolves
    /// through `get` to the element the reference holds, storage order as expected
    pub fn check_reg(&self, out: &mut Out, r: usize, what: &str) {
        let (Some(m), Some((order, rf))) = (&self.regs[r], &self.refs[r]) else { return };
        if m.order() != *order {
            out.oracle_fail(&format!("{what}: order is {:?}, expected {:?}", m.order(), order));
        }
        if (m.nrows(), m.ncols()) != (rf.nrows, rf.ncols) {
            out.oracle_fail(&format!("{what}: shape is {}x{}, expected {}x{}", m.nrows(), m.ncols(), rf.nrows, rf.ncols));
            return;
        }
        if (m.nrows() as u128) * (m.ncols() as u128) != m.size() as u128 {
            out.oracle_fail(&format!("{what}: {}x{} matrix holds {} elements", m.nrows(), m.ncols(), m.size()));
            return;
        }
        if rf.nrows == 0 || rf.ncols == 0 {
            return;
        }
        // the memory-order sequence: row by row for a row-major, column by column for a column-major matrix
        {
            let (maj, min) = if *order == Order::RowMajor { (rf.nrows, rf.ncols) } else { (rf.ncols, rf.nrows) };
            let mut it = m.iter_elements();
            'seq: for a in 0..maj {
                for b in 0..min {
                    let (i, j) = if *order == Order::RowMajor { (a, b) } else { (b, a) };
                    match it.next() {
                        Some(e) if e.show() == rf.rows[i][j] => {}
                        Some(e) => { out.oracle_fail(&format!("{what}: memory-order position {} holds {}, expected the element ({i},{j}) = {}", a * min + b, e.show(), rf.rows[i][j])); break 'seq; }
                        None => { out.oracle_fail(&format!("{what}: iter_elements() ended after {} items", a * min + b)); break 'seq; }
                    }
                }
            }
        }
        for i in 0..rf.nrows {
            for j in 0..rf.ncols {
                match m.get((i, j)) {
                    Ok(e) if e.show() == rf.rows[i][j] => {}
                    Ok(e) => out.oracle_fail(&format!("{what}: element ({i},{j}) is {}, expected {}", e.show(), rf.rows[i][j])),
                    Err(e) => out.oracle_fail(&format!("{what}: get(({i},{j})) failed with {}", err_name(e))),
                }
            }
        }
    }

    pub fn new_matrix(&mut self, out: &mut Out, r: usize, order: Order, nr: usize, nc: usize, base: usize) {
        let op = format!("new {r} {} {nr} {nc} {base}", ord_ch(order));
        out.announce(&op);
        let m = mk(order, nr, nc, |k| E::make((base + k).to_string()));
        let mem: Vec<String> = m.iter_elements().map(|e| e.show()).collect();
        self.refs[r] = Some((order, Ref::from_mem(order, nr, nc, &mem)));
        out.observe(&format!("ok | {}", st_str(&m)));
        self.regs[r] = Some(m);
        self.check_reg(out, r, &op);
    }

    pub fn drop_reg(&mut self, out: &mut Out, r: usize) {
        out.announce(&format!("drop {r}"));
        self.regs[r] = None;
        self.refs[r] = None;
        out.observe("ok");
    }

    /// the five order / transposition operations; the ledger must stay silent (elements are moved)
    pub fn order_op(&mut self, out: &mut Out, r: usize, name: &str, arg: Option<Order>) {
        let op = match arg {
            Some(o) => format!("{name} {r} {}", ord_ch(o)),
            None => format!("{name} {r}"),
        };
        out.announce(&op);
        let before = snapshot();
        let m = self.regs[r].as_mut().unwrap();
        let old_order = m.order();
        let res = catch(|| match name {
            "transpose" => { m.transpose(); }
            "switch" => { m.switch_order(); }
            "switch_wr" => { m.switch_order_without_rearrangement(); }
            "set_order" => { m.set_order(arg.unwrap()); }
            "set_order_wr" => { m.set_order_without_rearrangement(arg.unwrap()); }
            _ => unreachable!(),
        });
        let after = snapshot();
        if (after.cloned, after.dropped, after.created, after.defaults) != (before.cloned, before.dropped, before.created, before.defaults) {
            out.oracle_fail(&format!("{op}: elements were cloned/dropped/created ({:?} -> {:?})", before, after));
        }
        // reference: what the property says each operation does
        let (order, rf) = self.refs[r].take().unwrap();
        let flip = |o: Order| if o == Order::RowMajor { Order::ColMajor } else { Order::RowMajor };
        let new_ref = match name {
            "transpose" => (order, rf.transposed()),
            "switch" => (flip(order), rf),
            "switch_wr" => (flip(order), rf.transposed()),
            "set_order" => (arg.unwrap(), rf),
            "set_order_wr" => if arg.unwrap() != order { (arg.unwrap(), rf.transposed()) } else { (order, rf) },
            _ => unreachable!(),
        };
        if old_order != order {
            out.oracle_fail(&format!("{op}: the matrix was in order {:?} although every operation so far should have left it in {:?}", old_order, order));
        }
        self.refs[r] = Some(new_ref);
        match res {
            None => {
                out.oracle_fail(&format!("{op}: the operation panicked"));
                out.observe("panic")
            }
            Some(()) => {
                let m = self.regs[r].as_ref().unwrap();
                out.observe(&format!("ok | {}", st_str(m)));
                self.check_reg(out, r, &op);
            }
        }
    }

    /// clear(): element-less 0x0 matrix, every element dropped
    pub fn clear(&mut self, out: &mut Out, r: usize) {
        let op = format!("clear {r}");
        out.announce(&op);
        let m = self.regs[r].as_mut().unwrap();
        let res = catch(|| { m.clear(); });
        let (order, _) = self.refs[r].take().unwrap();
        self.refs[r] = Some((order, Ref { nrows: 0, ncols: 0, rows: Vec::new() }));
        if res.is_none() { out.oracle_fail(&format!("{op}: panicked")); }
        out.observe(&format!("{} | {}", if res.is_some() { "ok" } else { "panic" }, self.reg_str(r)));
        self.check_reg(out, r, &op);
    }

    /// shrink_to_fit / shrink_to(n): nothing observable changes
    pub fn shrink(&mut self, out: &mut Out, r: usize, to: Option<usize>) {
        let op = match to { None => format!("shrink {r} fit"), Some(n) => format!("shrink {r} {n}") };
        out.announce(&op);
        let before = self.reg_str(r);
        let m = self.regs[r].as_mut().unwrap();
        let res = catch(|| { match to { None => { m.shrink_to_fit(); } Some(n) => { m.shrink_to(n); } } });
        if res.is_none() || self.reg_str(r) != before {
            out.oracle_fail(&format!("{op}: the matrix changed from `{before}` to `{}`", self.reg_str(r)));
        }
        out.observe(&format!("ok | {}", self.reg_str(r)));
        self.check_reg(out, r, &op);
    }

    /// reshape: acts on the memory-order sequence; anything but the same size is SizeMismatch
    pub fn reshape(&mut self, out: &mut Out, r: usize, nr: usize, nc: usize) {
        let op = format!("reshape {r} {nr} {nc}");
        out.announce(&op);
        let before = snapshot();
        let st_before = self.reg_str(r);
        let m = self.regs[r].as_mut().unwrap();
        let res = catch(|| spelled!(nr, nc, |sh| m.reshape(sh).map(|_| ())));
        let after = snapshot();
        if (after.cloned, after.dropped, after.created, after.defaults) != (before.cloned, before.dropped, before.created, before.defaults) {
            out.oracle_fail(&format!("{op}: elements were cloned/dropped/created"));
        }
        let (order, rf) = self.refs[r].take().unwrap();
        let size = rf.nrows * rf.ncols;
        let valid = (nr as u128) * (nc as u128) == size as u128;
        let new_ref = if valid { Ref::from_mem(order, nr, nc, &rf.mem(order)) } else { rf };
        self.refs[r] = Some((order, new_ref));
        let m = self.regs[r].as_ref().unwrap();
        let obs = match res {
            None => "panic".to_string(),
            Some(Ok(())) => format!("ok | {}", st_str(m)),
            Some(Err(e)) => format!("err {} | {}", err_name(e), st_str(m)),
        };
        if obs.starts_with("ok") != valid || (!valid && !obs.starts_with("err SizeMismatch")) {
            out.oracle_fail(&format!("{op}: expected {}, implementation gave `{obs}`", if valid { "Ok" } else { "Err(SizeMismatch)" }));
        }
        if !obs.starts_with("ok") && self.reg_str(r) != st_before {
            out.oracle_fail(&format!("{op}: the failed call changed the matrix from `{st_before}` to `{}`", self.reg_str(r)));
        }
        out.count(if valid { "reshape:valid" } else { "reshape:invalid" });
        out.observe(&obs);
        self.check_reg(out, r, &op);
    }

    /// resize: keeps the first min(old, new) elements of the memory-order sequence
    pub fn resize(&mut self, out: &mut Out, r: usize, nr: usize, nc: usize) {
        let op = format!("resize {r} {nr} {nc}");
        out.announce(&op);
        let before = snapshot();
        let st_before = self.reg_str(r);
        let es = size_of::<E>() as u128;
        let n = (nr as u128) * (nc as u128);
        let want: Result<(), &str> = if n > usize::MAX as u128 { Err("SizeOverflow") } else if es * n > isize::MAX as u128 { Err("CapacityOverflow") } else { Ok(()) };
        if want.is_ok() && n > 100_000 {
            out.observe("skipped");
            return;
        }
        let m = self.regs[r].as_mut().unwrap();
        let res = catch(|| spelled!(nr, nc, |sh| m.resize(sh).map(|_| ())));
        let after = snapshot();
        let (order, rf) = self.refs[r].take().unwrap();
        let old = rf.nrows * rf.ncols;
        let new_ref = if want.is_ok() {
            let mut mem = rf.mem(order);
            mem.truncate(n as usize);
            while mem.len() < n as usize {
                mem.push(match E::KIND { "unit" => "u", "tok" => "d", _ => "0" }.to_string());
            }
            if E::COUNTED {
                let (grown, shrunk) = ((n as usize).saturating_sub(old) as u64, old.saturating_sub(n as usize) as u64);
                // the reference's own `dflt()` calls above are accounted for
                let made_by_ref = grown;
                if after.defaults - before.defaults != grown || after.dropped - before.dropped != shrunk || after.cloned != before.cloned {
                    out.oracle_fail(&format!("{op}: expected {grown} defaults and {shrunk} drops, saw {} defaults, {} drops, {} clones",
                        after.defaults - before.defaults, after.dropped - before.dropped, after.cloned - before.cloned));
                }
                let _ = made_by_ref;
            }
            Ref::from_mem(order, nr, nc, &mem)
        } else {
            rf
        };
        self.refs[r] = Some((order, new_ref));
        let m = self.regs[r].as_ref().unwrap();
        let obs = match res {
            None => "panic".to_string(),
            Some(Ok(())) => format!("ok | {}", st_str(m)),
            Some(Err(e)) => format!("err {} | {}", err_name(e), st_str(m)),
        };
        let w = match want { Ok(()) => "ok".to_string(), Err(e) => format!("err {e}") };
        if !obs.starts_with(&w) {
            out.oracle_fail(&format!("{op}: expected `{w}`, implementation gave `{obs}`"));
        }
        if !obs.starts_with("ok") && self.reg_str(r) != st_before {
            out.oracle_fail(&format!("{op}: the failed call changed the matrix from `{st_before}` to `{}`", self.reg_str(r)));
        }
        out.count(&format!("resize:{}", if want.is_ok() { if (n as usize) < old { "shrink" } else if (n as usize) > old { "grow" } else { "same-size" } } else { "error" }));
        out.observe(&obs);
        self.check_reg(out, r, &op);
    }

    /// resize with caller-code invocation number `k` panicking (a `T::default` while growing, the
    /// destructor of a tail element while shrinking); the unwind is caught and the history goes on
    /// with the survivor. A fault while growing leaves the matrix as it was; a fault in a
    /// destructor does not stop the shrink (the remaining tail is still dropped).
    pub fn fresize(&mut self, out: &mut Out, r: usize, k: u64, nr: usize, nc: usize) {
        let op = format!("fresize {r} {k} {nr} {nc}");
        out.announce(&op);
        let m = self.regs[r].as_mut().unwrap();
        crate::tok::set_drop_callbacks(true);
        crate::tok::set_fuse(Some(k));
        let res = catch(|| m.resize((nr, nc)).map(|_| ()));
        let fired = crate::tok::LEDGER.lock().unwrap_or_else(|e| e.into_inner()).fuse.is_none();
        crate::tok::set_fuse(None);
        crate::tok::set_drop_callbacks(false);
        let (order, rf) = self.refs[r].take().unwrap();
        let (old, n) = (rf.nrows * rf.ncols, nr * nc);
        let new_ref = if fired && n > old {
            rf
        } else {
            let mut mem = rf.mem(order);
            mem.truncate(n);
            while mem.len() < n {
                mem.push(match E::KIND { "unit" => "u", "tok" => "d", _ => "0" }.to_string());
            }
            Ref::from_mem(order, nr, nc, &mem)
        };
        self.refs[r] = Some((order, new_ref));
        let m = self.regs[r].as_ref().unwrap();
        let obs = match res {
            None => format!("unwound | {}", st_str(m)),
            Some(Ok(())) => format!("ok | {}", st_str(m)),
            Some(Err(e)) => format!("err {} | {}", err_name(e), st_str(m)),
        };
        if res.is_none() != fired {
            out.oracle_fail(&format!("{op}: fault fired = {fired}, but the call {}", if res.is_none() { "unwound" } else { "returned" }));
        }
        out.count(&format!("fresize:{}{}", if n > old { "grow" } else if n < old { "shrink" } else { "same-size" }, if fired { ":fault-fired" } else { ":completed" }));
        out.observe(&obs);
        self.check_reg(out, r, &op);
    }

    /// the four outer view families: iter_rows / iter_cols (immutable) and iter_rows_mut /
    /// iter_cols_mut, consumed by `opat`, each inner view by `ipat`; addresses are compared with
    /// the reference (every item must be the element at its logical position)
    pub fn views(&mut self, out: &mut Out, r: usize, family: &str, axis: &str, opat: &str, ipat: &str) {
        let op = format!("{family} {r} {axis} {opat} {ipat}");
        out.announce(&op);
        let pat = |p: &str| -> Vec<char> { if p == "-" { Vec::new() } else { p.chars().collect() } };
        let (op_, ip_) = (pat(opat), pat(ipat));
        fn consume<I: ExactSizeIterator + DoubleEndedIterator>(mut it: I, pat: &[char]) -> Vec<(usize, I::Item)> {
            let mut items = Vec::new();
            let mut p = pat.iter();
            loop {
                let len = it.len();
                let x = match p.next() { Some('B') => it.next_back(), _ => it.next() };
                match x { Some(v) => items.push((len, v)), None => break }
            }
            items
        }
        let (_, rf) = self.refs[r].clone().unwrap();
        let rows = axis == "rows";
        let (al, vl) = if rows { (rf.nrows, rf.ncols) } else { (rf.ncols, rf.nrows) };
        // (outer len, [(inner len, payload, address)])
        let mut got: Vec<(usize, Vec<(usize, String, usize)>)> = Vec::new();
        let res = {
            let regs = &mut self.regs;
            catch(|| {
                let m = regs[r].as_mut().unwrap();
                match (family, rows) {
                    ("views", true) => { for (l, v) in consume(m.iter_rows(), &op_) { got.push((l, consume(v, &ip_).into_iter().map(|(k, e)| (k, e.show(), e as *const E as usize)).collect())); } }
                    ("views", false) => { for (l, v) in consume(m.iter_cols(), &op_) { got.push((l, consume(v, &ip_).into_iter().map(|(k, e)| (k, e.show(), e as *const E as usize)).collect())); } }
                    (_, true) => { for (l, v) in consume(m.iter_rows_mut(), &op_) { got.push((l, consume(v, &ip_).into_iter().map(|(k, e)| (k, e.show(), e as *const E as usize)).collect())); } }
                    (_, false) => { for (l, v) in consume(m.iter_cols_mut(), &op_) { got.push((l, consume(v, &ip_).into_iter().map(|(k, e)| (k, e.show(), e as *const E as usize)).collect())); } }
                }
            })
        };
        if res.is_none() {
            out.oracle_fail(&format!("{op}: the view family panicked"));
            out.observe("panic");
            return;
        }
        // oracle: exactly `al` vectors with outer len counting down; the k-th consumed vector is
        // the vector the deque discipline says; items are the elements at the expected coordinates
        if got.len() != al {
            out.oracle_fail(&format!("{op}: {} vectors yielded, the matrix has {al}", got.len()));
        }
        let mut front = 0usize; let mut back = 0usize;
        let m = self.regs[r].as_ref().unwrap();
        for (n, (olen, items)) in got.iter().enumerate() {
            if *olen != al.saturating_sub(n) {
                out.oracle_fail(&format!("{op}: outer len() = {olen} before call {n} of {al}"));
            }
            let from_back = op_.get(n) == Some(&'B');
            if front + back >= al { break; }
            let k = if from_back { back += 1; al - back } else { front += 1; front - 1 };
            if items.len() != vl {
                out.oracle_fail(&format!("{op}: vector {k} has {} items, expected {vl}", items.len()));
            }
            let (mut f, mut b) = (0usize, 0usize);
            for (j, (ilen, val, addr)) in items.iter().enumerate() {
                if *ilen != vl.saturating_sub(j) {
                    out.oracle_fail(&format!("{op}: inner len() = {ilen} before call {j} of {vl}"));
                }
                if f + b >= vl { break; }
                let t = if ip_.get(j) == Some(&'B') { b += 1; vl - b } else { f += 1; f - 1 };
                let (rr, cc) = if rows { (k, t) } else { (t, k) };
                if rf.rows[rr][cc] != *val {
                    out.oracle_fail(&format!("{op}: vector {k} item {t} is {val}, the element at ({rr}, {cc}) is {}", rf.rows[rr][cc]));
                }
                if size_of::<E>() != 0 && m.get((rr, cc)).map(|e| e as *const E as usize).ok() != Some(*addr) {
                    out.oracle_fail(&format!("{op}: vector {k} item {t} is not the element get(({rr}, {cc})) returns"));
                }
            }
        }
        let txt: Vec<String> = got.iter().map(|(l, items)| format!("{l}:[{}]", items.iter().map(|(k, v, _)| format!("{k}:{v}")).collect::<Vec<_>>().join(","))).collect();
        out.observe(&format!("ok [{}]", txt.join(",")));
    }

    /// iter_nth_row / iter_nth_col and their _mut forms
    pub fn nth(&mut self, out: &mut Out, r: usize, kind: &str, n: usize, ipat: &str) {
        let op = format!("nth {r} {kind} {n} {ipat}");
        out.announce(&op);
        let pat: Vec<char> = if ipat == "-" { Vec::new() } else { ipat.chars().collect() };
        fn consume<I: ExactSizeIterator + DoubleEndedIterator>(mut it: I, pat: &[char]) -> Vec<(usize, I::Item)> {
            let mut items = Vec::new();
            let mut p = pat.iter();
            loop {
                let len = it.len();
                let x = match p.next() { Some('B') => it.next_back(), _ => it.next() };
                match x { Some(v) => items.push((len, v)), None => break }
            }
            items
        }
        let (_, rf) = self.refs[r].clone().unwrap();
        let rows = kind.starts_with("row");
        let (extent, vl) = if rows { (rf.nrows, rf.ncols) } else { (rf.ncols, rf.nrows) };
        let mut got: Vec<(usize, String, usize)> = Vec::new();
        let res: Option<Result<(), matreex::Error>> = {
            let regs = &mut self.regs;
            catch(|| {
                let m = regs[r].as_mut().unwrap();
                let map = |v: Vec<(usize, &E)>| -> Vec<(usize, String, usize)> { v.into_iter().map(|(k, e)| (k, e.show(), e as *const E as usize)).collect() };
                match kind {
                    "row" => m.iter_nth_row(n).map(|it| { got = map(consume(it, &pat)); }),
                    "col" => m.iter_nth_col(n).map(|it| { got = map(consume(it, &pat)); }),
                    "row_mut" => m.iter_nth_row_mut(n).map(|it| { got = consume(it, &pat).into_iter().map(|(k, e)| (k, e.show(), e as *const E as usize)).collect(); }),
                    _ => m.iter_nth_col_mut(n).map(|it| { got = consume(it, &pat).into_iter().map(|(k, e)| (k, e.show(), e as *const E as usize)).collect(); }),
                }
            })
        };
        let obs = match res {
            None => { out.oracle_fail(&format!("{op}: panicked")); "panic".to_string() }
            Some(Err(e)) => {
                if n < extent { out.oracle_fail(&format!("{op}: {} for a valid {} number", err_name(e), if rows { "row" } else { "column" })); }
                else if e != matreex::Error::IndexOutOfBounds { out.oracle_fail(&format!("{op}: {} instead of IndexOutOfBounds for n = {n} with {extent} {}", err_name(e), if rows { "rows" } else { "columns" })); }
                format!("err {}", err_name(e))
            }
            Some(Ok(())) => {
                if n >= extent {
                    out.oracle_fail(&format!("{op}: Ok for n = {n} with only {extent} {}", if rows { "rows" } else { "columns" }));
                } else {
                    if got.len() != vl { out.oracle_fail(&format!("{op}: {} items, expected {vl}", got.len())); }
                    let m = self.regs[r].as_ref().unwrap();
                    let (mut f, mut b) = (0usize, 0usize);
                    for (j, (ilen, val, addr)) in got.iter().enumerate() {
                        if *ilen != vl.saturating_sub(j) { out.oracle_fail(&format!("{op}: len() = {ilen} before call {j} of {vl}")); }
                        if f + b >= vl { break; }
                        let t = if pat.get(j) == Some(&'B') { b += 1; vl - b } else { f += 1; f - 1 };
                        let (rr, cc) = if rows { (n, t) } else { (t, n) };
                        if rf.rows[rr][cc] != *val { out.oracle_fail(&format!("{op}: item {t} is {val}, the element at ({rr}, {cc}) is {}", rf.rows[rr][cc])); }
                        if size_of::<E>() != 0 && m.get((rr, cc)).map(|e| e as *const E as usize).ok() != Some(*addr) {
                            out.oracle_fail(&format!("{op}: item {t} is not the element get(({rr}, {cc})) returns"));
                        }
                    }
                }
                format!("ok [{}]", got.iter().map(|(k, v, _)| format!("{k}:{v}")).collect::<Vec<_>>().join(","))
            }
        };
        out.count(&format!("nth:{}", if n < extent { "valid" } else { "invalid" }));
        out.observe(&obs);
    }

    /// swap_rows / swap_cols with any pair of indices
    pub fn swap_vecs(&mut self, out: &mut Out, r: usize, name: &str, a: usize, b: usize) {
        let op = format!("{name} {r} {a} {b}");
        out.announce(&op);
        let before = snapshot();
        let st_before = self.reg_str(r);
        let m = self.regs[r].as_mut().unwrap();
        let res = catch(|| match name {
            "swap_rows" => m.swap_rows(a, b).map(|_| ()),
            _ => m.swap_cols(a, b).map(|_| ()),
        });
        let after = snapshot();
        if (after.cloned, after.dropped, after.created) != (before.cloned, before.dropped, before.created) {
            out.oracle_fail(&format!("{op}: elements were cloned/dropped/created"));
        }
        let (order, mut rf) = self.refs[r].take().unwrap();
        let extent = if name == "swap_rows" { rf.nrows } else { rf.ncols };
        let valid = a < extent && b < extent;
        if valid && !rf.rows.is_empty() {
            if name == "swap_rows" {
                rf.rows.swap(a, b);
            } else {
                for row in rf.rows.iter_mut() {
                    row.swap(a, b);
                }
            }
        }
        self.refs[r] = Some((order, rf));
        let m = self.regs[r].as_ref().unwrap();
        let obs = match res {
            None => "panic".to_string(),
            Some(Ok(())) => format!("ok | {}", st_str(m)),
            Some(Err(e)) => format!("err {} | {}", err_name(e), st_str(m)),
        };
        let want_ok = valid;
        if obs.starts_with("ok") != want_ok || (!want_ok && !obs.starts_with("err IndexOutOfBounds")) {
            out.oracle_fail(&format!("{op}: expected {}, implementation gave `{}`", if want_ok { "Ok" } else { "Err(IndexOutOfBounds)" }, obs));
        }
        if !obs.starts_with("ok") && self.reg_str(r) != st_before {
            out.oracle_fail(&format!("{op}: the failed call changed the matrix from `{st_before}` to `{}`", self.reg_str(r)));
        }
        out.count(if valid { if a == b { "swap:valid-equal" } else { "swap:valid-distinct" } } else { "swap:invalid" });
        out.observe(&obs);
        self.check_reg(out, r, &op);
    }

    /// swap(i, j) with plain ('p') or wrapping ('w') indices
    pub fn swap_elems(&mut self, out: &mut Out, r: usize, i: (char, isize, isize), j: (char, isize, isize)) {
        use matreex::WrappingIndex;
        // kind 's': a caller-defined index type whose accessors give the stated coordinates on their
        // first call and different ones afterwards; the operation line (and the model) see a plain index
        let line_kind = |k: char| if k == 's' { 'p' } else { k };
        let op = format!("swap {r} {} {} {} {} {} {}", line_kind(i.0), i.1, i.2, line_kind(j.0), j.1, j.2);
        out.announce(&op);
        if i.0 == 's' || j.0 == 's' {
            let fl_i = Flip::new(i.1 as usize, i.2 as usize);
            let fl_j = Flip::new(j.1 as usize, j.2 as usize);
            let m = self.regs[r].as_mut().unwrap();
            let st_before = st_str(m);
            let res = catch(|| m.swap(&fl_i, &fl_j).map(|_| ()));
            // the first index is read once; the second once, or not at all when the first is rejected
            let (ci, cj) = (fl_i.calls.get(), fl_j.calls.get());
            if ci != (1, 1) || !(cj == (1, 1) || cj == (0, 0)) {
                out.oracle_fail(&format!("{op}: through caller-defined accessors: row()/col() were called {:?} and {:?} times instead of once each", ci, cj));
            }
            let (order, mut rf) = self.refs[r].take().unwrap();
            let inb = |a: isize, b: isize, rf: &Ref| (a as usize) < rf.nrows && (b as usize) < rf.ncols;
            let valid = inb(i.1, i.2, &rf) && inb(j.1, j.2, &rf);
            if valid {
                let t = rf.rows[i.1 as usize][i.2 as usize].clone();
                rf.rows[i.1 as usize][i.2 as usize] = rf.rows[j.1 as usize][j.2 as usize].clone();
                rf.rows[j.1 as usize][j.2 as usize] = t;
            }
            self.refs[r] = Some((order, rf));
            let m = self.regs[r].as_ref().unwrap();
            let obs = match res {
                None => "panic".to_string(),
                Some(Ok(())) => format!("ok | {}", st_str(m)),
                Some(Err(e)) => format!("err {} | {}", err_name(e), st_str(m)),
            };
            if obs.starts_with("ok") != valid || (!valid && !obs.starts_with("err IndexOutOfBounds")) {
                out.oracle_fail(&format!("{op}: through caller-defined accessors: expected {}, implementation gave `{}`", if valid { "Ok" } else { "Err(IndexOutOfBounds)" }, obs));
            }
            if !obs.starts_with("ok") && st_str(m) != st_before {
                out.oracle_fail(&format!("{op}: the failed call changed the matrix"));
            }
            out.count("swap-elem:caller-defined-index");
            out.observe(&obs);
            self.check_reg(out, r, &op);
            return;
        }
        let before = snapshot();
        let st_before = self.reg_str(r);
        let m = self.regs[r].as_mut().unwrap();
        let res = catch(|| match (i.0, j.0) {
            ('p', 'p') => m.swap((i.1 as usize, i.2 as usize), (j.1 as usize, j.2 as usize)).map(|_| ()),
            ('p', _) => m.swap((i.1 as usize, i.2 as usize), WrappingIndex::new(j.1, j.2)).map(|_| ()),
            (_, 'p') => m.swap(WrappingIndex::new(i.1, i.2), (j.1 as usize, j.2 as usize)).map(|_| ()),
            _ => m.swap(WrappingIndex::new(i.1, i.2), WrappingIndex::new(j.1, j.2)).map(|_| ()),
        });
        let after = snapshot();
        if (after.cloned, after.dropped, after.created) != (before.cloned, before.dropped, before.created) {
            out.oracle_fail(&format!("{op}: elements were cloned/dropped/created"));
        }
        let (order, mut rf) = self.refs[r].take().unwrap();
        let resolve = |k: (char, isize, isize), rf: &Ref| -> Option<(usize, usize)> {
            if k.0 == 'p' {
                let (a, b) = (k.1 as usize, k.2 as usize);
                if a < rf.nrows && b < rf.ncols { Some((a, b)) } else { None }
            } else if rf.nrows * rf.ncols == 0 {
                None
            } else {
                Some(((k.1 as i128).rem_euclid(rf.nrows as i128) as usize, (k.2 as i128).rem_euclid(rf.ncols as i128) as usize))
            }
        };
        let (pi, pj) = (resolve(i, &rf), resolve(j, &rf));
        let valid = pi.is_some() && pj.is_some();
        if let (Some(a), Some(b)) = (pi, pj) {
            let t = rf.rows[a.0][a.1].clone();
            rf.rows[a.0][a.1] = rf.rows[b.0][b.1].clone();
            rf.rows[b.0][b.1] = t;
        }
        self.refs[r] = Some((order, rf));
        let m = self.regs[r].as_ref().unwrap();
        let obs = match res {
            None => "panic".to_string(),
            Some(Ok(())) => format!("ok | {}", st_str(m)),
            Some(Err(e)) => format!("err {} | {}", err_name(e), st_str(m)),
        };
        if obs.starts_with("ok") != valid || (!valid && !obs.starts_with("err IndexOutOfBounds")) {
            out.oracle_fail(&format!("{op}: expected {}, implementation gave `{}`", if valid { "Ok" } else { "Err(IndexOutOfBounds)" }, obs));
        }
        if !obs.starts_with("ok") && self.reg_str(r) != st_before {
            out.oracle_fail(&format!("{op}: the failed call changed the matrix from `{st_before}` to `{}`", self.reg_str(r)));
        }
        out.count(if valid { if pi == pj { "swap-elem:same-element" } else { "swap-elem:distinct" } } else { "swap-elem:invalid" });
        out.observe(&obs);
        self.check_reg(out, r, &op);
    }

    /// dest.overwrite(&src): clones are visible (primed payloads) and counted by the ledger
    pub fn overwrite(&mut self, out: &mut Out, r: usize, q: usize) where E: Clone {
        let op = format!("overwrite {r} {q}");
        out.announce(&op);
        let before = snapshot();
        let src = self.regs[q].take().unwrap();
        let res = {
            let dst = self.regs[r].as_mut().unwrap();
            catch(|| { dst.overwrite(&src); })
        };
        let after = snapshot();
        let (sorder, srf) = self.refs[q].clone().unwrap();
        let (dorder, mut drf) = self.refs[r].take().unwrap();
        let (br, bc) = (drf.nrows.min(srf.nrows), drf.ncols.min(srf.ncols));
        for i in 0..br {
            for j in 0..bc {
                drf.rows[i][j] = if E::MARKS_CLONES { format!("{}'", srf.rows[i][j]) } else { srf.rows[i][j].clone() };
            }
        }
        self.refs[r] = Some((dorder, drf));
        let _ = sorder;
        if E::COUNTED {
            let block = (br * bc) as u64;
            if after.cloned - before.cloned != block || after.dropped - before.dropped != block || after.created != before.created {
                out.oracle_fail(&format!("{op}: block of {block} elements, but {} clones and {} drops", after.cloned - before.cloned, after.dropped - before.dropped));
            }
        }
        let obs = match res {
            None => {
                out.oracle_fail(&format!("{op}: overwrite panicked (dest {}x{}, src {}x{})", self.refs[r].as_ref().unwrap().1.nrows, self.refs[r].as_ref().unwrap().1.ncols, srf.nrows, srf.ncols));
                "panic".to_string()
            }
            Some(()) => format!("ok | {} | {}", st_str(self.regs[r].as_ref().unwrap()), st_str(&src)),
        };
        out.observe(&obs);
        self.regs[q] = Some(src);
        self.check_reg(out, r, &op);
        self.check_reg(out, q, &op);
    }

    pub fn reg_str(&self, r: usize) -> String {
        match &self.regs[r] {
            Some(m) => st_str(m),
            None => "-".to_string(),
        }
    }
}

/// elementwise operations exist for token matrices only (they need the symbolic operators)
impl<E: Elem> World<E> {
    /// logical view through get() for any element type: extents and rows
    pub fn lview_any(&mut self, out: &mut Out, r: usize) -> String {
        let op = format!("lview {r}");
        out.announce(&op);
        let m = self.regs[r].as_ref().unwrap();
        let rows: Vec<String> = (0..m.nrows()).map(|i| (0..m.ncols()).map(|j| m.get((i, j)).map(|e| e.show()).unwrap_or("?".into())).collect::<Vec<_>>().join(";")).collect();
        let s = format!("lv {}x{} [{}]", m.nrows(), m.ncols(), rows.join(","));
        out.observe(&s);
        s
    }
}

impl<E: Elem> World<E> {
    /// `adapt r fam axis k`: vector k through one of the four view families, consumed through
    /// iterator ADAPTORS (an iterator may override nth / nth_back / fold-based methods): a fresh
    /// iterator per adaptor; oracle = the same adaptors on the reference vector
    pub fn adapt(&mut self, out: &mut Out, r: usize, fam: &str, axis: &str, k: usize) {
        let op = format!("adapt {r} {fam} {axis} {k}");
        out.announce(&op);
        let rows = axis == "rows";
        let (_, rf) = self.refs[r].clone().unwrap();
        let extent = if rows { rf.nrows } else { rf.ncols };
        let want_vec: Option<Vec<String>> = if k < extent {
            Some(if rows { if rf.ncols == 0 { Vec::new() } else { rf.rows[k].clone() } } else { (0..rf.nrows).map(|i| rf.rows[i][k].clone()).collect() })
        } else { None };
        // one adaptor application on a fresh iterator of the chosen family; `None` = no such vector
        enum Got { NoVector, Err(matreex::Error), Val(String) }
        let mut run = |which: &str| -> Option<Got> {
            let m = self.regs[r].as_mut().unwrap();
            macro_rules! apply {
                ($it:expr) => {{
                    let it = $it;
                    match which {
                        "n1" => { let mut it = it; it.nth(1).map(|e| e.show()).unwrap_or("-".into()) }
                        "nb1" => { let mut it = it; it.nth_back(1).map(|e| e.show()).unwrap_or("-".into()) }
                        "ss" => format!("[{}]", it.skip(1).step_by(2).map(|e| e.show()).collect::<Vec<_>>().join(",")),
                        "tr" => format!("[{}]", it.take(2).rev().map(|e| e.show()).collect::<Vec<_>>().join(",")),
                        "rs" => format!("[{}]", it.rev().skip(1).map(|e| e.show()).collect::<Vec<_>>().join(",")),
                        "last" => it.last().map(|e| e.show()).unwrap_or("-".into()),
                        // jumps of exactly the remaining length, of the remaining length minus one and far beyond it, each
                        // followed by one more call (what the jump leaves behind); a jump followed by the rest
                        "nl" => { let mut it = it; let n = it.len(); let a = it.nth(n).map(|e| e.show()).unwrap_or("-".into()); let b = it.next().map(|e| e.show()).unwrap_or("-".into()); format!("{a}/{b}") }
                        "nx" => { let mut it = it; let n = it.len(); let a = it.nth(n.saturating_sub(1)).map(|e| e.show()).unwrap_or("-".into()); let b = it.next().map(|e| e.show()).unwrap_or("-".into()); format!("{a}/{b}") }
                        "nh" => { let mut it = it; let a = it.nth(usize::MAX / 3 + 1).map(|e| e.show()).unwrap_or("-".into()); let b = it.next().map(|e| e.show()).unwrap_or("-".into()); format!("{a}/{b}") }
                        "nbl" => { let mut it = it; let n = it.len(); let a = it.nth_back(n).map(|e| e.show()).unwrap_or("-".into()); let b = it.next_back().map(|e| e.show()).unwrap_or("-".into()); format!("{a}/{b}") }
                        "nbh" => { let mut it = it; let a = it.nth_back(usize::MAX / 5 + 1).map(|e| e.show()).unwrap_or("-".into()); let b = it.next().map(|e| e.show()).unwrap_or("-".into()); format!("{a}/{b}") }
                        "nr" => { let mut it = it; let a = it.nth(1).map(|e| e.show()).unwrap_or("-".into()); format!("{a}/[{}]", it.map(|e| e.show()).collect::<Vec<_>>().join(",")) }
                        "nbr" => { let mut it = it; let a = it.nth_back(1).map(|e| e.show()).unwrap_or("-".into()); format!("{a}/[{}]", it.map(|e| e.show()).collect::<Vec<_>>().join(",")) }
                        _ => it.count().to_string(),
                    }
                }};
            }
            catch(|| match (fam, rows) {
                ("views", true) => match m.iter_rows().nth(k) { None => Got::NoVector, Some(v) => Got::Val(apply!(v)) },
                ("views", false) => match m.iter_cols().nth(k) { None => Got::NoVector, Some(v) => Got::Val(apply!(v)) },
                ("viewsmut", true) => match m.iter_rows_mut().nth(k) { None => Got::NoVector, Some(v) => Got::Val(apply!(v)) },
                ("viewsmut", false) => match m.iter_cols_mut().nth(k) { None => Got::NoVector, Some(v) => Got::Val(apply!(v)) },
                ("nth", true) => match m.iter_nth_row(k) { Err(e) => Got::Err(e), Ok(v) => Got::Val(apply!(v)) },
                ("nth", false) => match m.iter_nth_col(k) { Err(e) => Got::Err(e), Ok(v) => Got::Val(apply!(v)) },
                ("nthmut", true) => match m.iter_nth_row_mut(k) { Err(e) => Got::Err(e), Ok(v) => Got::Val(apply!(v)) },
                _ => match m.iter_nth_col_mut(k) { Err(e) => Got::Err(e), Ok(v) => Got::Val(apply!(v)) },
            })
        };
        let keys = ["n1", "nb1", "ss", "tr", "rs", "last", "count", "nl", "nx", "nh", "nbl", "nbh", "nr", "nbr"];
        let mut parts: Vec<String> = Vec::new();
        let mut head: Option<String> = None;
        for key in keys {
            match run(key) {
                None => { out.oracle_fail(&format!("{op}: adaptor {key} panicked")); head = Some("panic".into()); break; }
                Some(Got::NoVector) => { head = Some("none".into()); break; }
                Some(Got::Err(e)) => { head = Some(format!("err {}", err_name(e))); break; }
                Some(Got::Val(v)) => parts.push(format!("{key}={v}")),
            }
        }
        let obs = head.unwrap_or_else(|| format!("ok {}", parts.join(" ")));
        // oracle: the same adaptors on the reference vector (std's slice iterator is the semantics)
        let want = match &want_vec {
            None => if fam.starts_with("nth") { "err IndexOutOfBounds".to_string() } else { "none".to_string() },
            Some(v) => {
                let o = |x: Option<&String>| x.cloned().unwrap_or("-".into());
                let l = |x: Vec<&String>| format!("[{}]", x.into_iter().cloned().collect::<Vec<_>>().join(","));
                let two = |mut it: std::slice::Iter<String>, n: usize, back: bool, then_back: bool| { let a = o(if back { it.nth_back(n) } else { it.nth(n) }); let b = o(if then_back { it.next_back() } else { it.next() }); format!("{a}/{b}") };
                let rest = |mut it: std::slice::Iter<String>, back: bool| { let a = o(if back { it.nth_back(1) } else { it.nth(1) }); format!("{a}/{}", l(it.collect())) };
                let n = v.len();
                format!("ok n1={} nb1={} ss={} tr={} rs={} last={} count={} nl={} nx={} nh={} nbl={} nbh={} nr={} nbr={}", o(v.iter().nth(1)), o(v.iter().nth_back(1)), l(v.iter().skip(1).step_by(2).collect()), l(v.iter().take(2).rev().collect()), l(v.iter().rev().skip(1).collect()), o(v.iter().last()), v.iter().count(),
                        two(v.iter(), n, false, false), two(v.iter(), n.saturating_sub(1), false, false), two(v.iter(), usize::MAX / 3 + 1, false, false), two(v.iter(), n, true, true), two(v.iter(), usize::MAX / 5 + 1, true, false), rest(v.iter(), false), rest(v.iter(), true))
            }
        };
        if obs != want { out.oracle_fail(&format!("{op}: expected `{want}`, implementation gave `{obs}`")); }
        out.count(&format!("adapt:{fam}"));
        out.observe(&obs);
    }
}

impl World<Tok> {
    /// `iteradapt r variant adaptor`: an element iterator consumed through ONE iterator adaptor;
    /// oracle = the same adaptor on the reference's memory-order items
    pub fn iter_adapt(&mut self, out: &mut Out, r: usize, variant: &str, adaptor: &str) {
        use matreex::Index;
        let op = format!("iteradapt {r} {variant} {adaptor}");
        out.announce(&op);
        // parameterised adaptors: n<k>, nb<k>, nn<a>x<b> (nth(a) then nth(b)), ss<a>x<b> (skip(a).step_by(b))
        let generic = !["n1", "nb1", "ss", "tr", "rs", "last", "count", "fold"].contains(&adaptor);
        let with_index = variant.contains("wi");
        let consuming = variant.starts_with("into");
        let (order, rf) = self.refs[r].clone().unwrap();
        // reference items in memory order
        let mut want_items: Vec<String> = Vec::new();
        let (maj, min) = if order == matreex::Order::RowMajor { (rf.nrows, rf.ncols) } else { (rf.ncols, rf.nrows) };
        if rf.nrows * rf.ncols > 0 {
            for i in 0..maj { for j in 0..min {
                let (rr, cc) = if order == matreex::Order::RowMajor { (i, j) } else { (j, i) };
                want_items.push(if with_index { format!("{rr}.{cc}={}", rf.rows[rr][cc]) } else { rf.rows[rr][cc].clone() });
            } }
        }
        fn show_e(i: Option<Index>, v: &str) -> String { match i { Some(i) => format!("{}.{}={v}", i.row, i.col), None => v.to_string() } }
        macro_rules! apply {
            ($it:expr, $f:expr) => {{
                let it = $it;
                let f = $f;
                let num = |t: &str| t.parse::<usize>().unwrap();
                let two = |t: &str| { let (a, b) = t.split_once('x').unwrap(); (num(a), num(b)) };
                match adaptor {
                    a if generic && a.starts_with("nb") => { let mut it = it; it.nth_back(num(&a[2..])).map(|x| f(x)).unwrap_or("-".into()) }
                    a if generic && a.starts_with("nn") => {
                        let (k1, k2) = two(&a[2..]);
                        let mut it = it;
                        let first = it.nth(k1).map(|x| f(x)).unwrap_or("-".into());
                        let second = it.nth(k2).map(|x| f(x)).unwrap_or("-".into());
                        format!("{first};{second}")
                    }
                    a if generic && a.starts_with('n') => { let mut it = it; it.nth(num(&a[1..])).map(|x| f(x)).unwrap_or("-".into()) }
                    a if generic && a.starts_with("ss") => { let (k1, k2) = two(&a[2..]); format!("[{}]", it.skip(k1).step_by(k2).map(|x| f(x)).collect::<Vec<_>>().join(",")) }
                    "n1" => { let mut it = it; it.nth(1).map(|x| f(x)).unwrap_or("-".into()) }
                    "nb1" => { let mut it = it; it.nth_back(1).map(|x| f(x)).unwrap_or("-".into()) }
                    "ss" => format!("[{}]", it.skip(1).step_by(2).map(|x| f(x)).collect::<Vec<_>>().join(",")),
                    "tr" => format!("[{}]", it.take(2).rev().map(|x| f(x)).collect::<Vec<_>>().join(",")),
                    "rs" => format!("[{}]", it.rev().skip(1).map(|x| f(x)).collect::<Vec<_>>().join(",")),
                    "last" => it.last().map(|x| f(x)).unwrap_or("-".into()),
                    "count" => it.count().to_string(),
                    _ => format!("[{}]", it.fold(Vec::new(), |mut acc, x| { acc.push(f(x)); acc }).join(",")),
                }
            }};
        }
        let res = {
            let regs = &mut self.regs;
            catch(|| match variant {
                "elems" => { let m = regs[r].as_ref().unwrap(); apply!(m.iter_elements(), |e: &Tok| show_e(None, &e.val)) }
                "elems_mut" => { let m = regs[r].as_mut().unwrap(); apply!(m.iter_elements_mut(), |e: &mut Tok| show_e(None, &e.val)) }
                "into" => { let m = regs[r].take().unwrap(); apply!(m.into_iter_elements(), |e: Tok| show_e(None, &e.val)) }
                "wi" => { let m = regs[r].as_ref().unwrap(); apply!(m.iter_elements_with_index(), |(i, e): (Index, &Tok)| show_e(Some(i), &e.val)) }
                "wi_mut" => { let m = regs[r].as_mut().unwrap(); apply!(m.iter_elements_mut_with_index(), |(i, e): (Index, &mut Tok)| show_e(Some(i), &e.val)) }
                _ => { let m = regs[r].take().unwrap(); apply!(m.into_iter_elements_with_index(), |(i, e): (Index, Tok)| show_e(Some(i), &e.val)) }
            })
        };
        if consuming { self.refs[r] = None; self.regs[r] = None; }
        let o = |x: Option<&String>| x.cloned().unwrap_or("-".into());
        let l = |x: Vec<&String>| format!("[{}]", x.into_iter().cloned().collect::<Vec<_>>().join(","));
        let v = &want_items;
        let num = |t: &str| t.parse::<usize>().unwrap();
        let two = |t: &str| { let (a, b) = t.split_once('x').unwrap(); (num(a), num(b)) };
        let want = match adaptor {
            a if generic && a.starts_with("nb") => o(v.iter().nth_back(num(&a[2..]))),
            a if generic && a.starts_with("nn") => { let (k1, k2) = two(&a[2..]); format!("{};{}", o(v.get(k1)), o(v.get(k1 + 1 + k2))) }
            a if generic && a.starts_with('n') => o(v.get(num(&a[1..]))),
            a if generic && a.starts_with("ss") => { let (k1, k2) = two(&a[2..]); l(v.iter().skip(k1).step_by(k2).collect()) }
            "n1" => o(v.iter().nth(1)), "nb1" => o(v.iter().nth_back(1)), "ss" => l(v.iter().skip(1).step_by(2).collect()), "tr" => l(v.iter().take(2).rev().collect()),
            "rs" => l(v.iter().rev().skip(1).collect()), "last" => o(v.iter().last()), "count" => v.len().to_string(), _ => l(v.iter().collect()),
        };
        let obs = match res { None => { out.oracle_fail(&format!("{op}: panicked")); "panic".to_string() } Some(s) => format!("ok {s}") };
        if obs != format!("ok {want}") && obs != "panic" { out.oracle_fail(&format!("{op}: expected `{want}`, implementation gave `{obs}`")); }
        out.count(&format!("iteradapt:{adaptor}"));
        out.observe(&obs);
        if !consuming { self.check_reg(out, r, &op); }
    }
}

/// an iterator whose `size_hint` claims an exact length that need not be the true one
pub struct Liar<I> { pub it: I, pub claim: usize }
impl<I: Iterator> Iterator for Liar<I> {
    type Item = I::Item;
    fn next(&mut self) -> Option<I::Item> { self.it.next() }
    fn size_hint(&self) -> (usize, Option<usize>) { (self.claim, Some(self.claim)) }
}

impl<E: Elem + Send + Sync> World<E> {
    /// `iter r variant pattern` for element types without identity (zero-sized ones): the same
    /// operation line as the token version; oracle: one item per element, and for the indexed
    /// variants every position exactly once (elements are indistinguishable, positions are not)
    pub fn iter_anon(&mut self, out: &mut Out, r: usize, variant: &str, pattern: &str) {
        use matreex::parallel::*;
        use matreex::Index;
        let op = format!("iter {r} {variant} {pattern}");
        out.announce(&op);
        let pat: Vec<char> = if pattern == "-" { Vec::new() } else { pattern.chars().collect() };
        fn consume<I: ExactSizeIterator + DoubleEndedIterator>(mut it: I, pat: &[char]) -> Vec<(usize, I::Item)> {
            let mut items = Vec::new();
            let mut p = pat.iter();
            loop {
                let len = it.len();
                let x = match p.next() { Some('B') => it.next_back(), _ => it.next() };
                match x { Some(v) => items.push((len, v)), None => break }
                if items.len() > 1_000_000 { break; }
            }
            items
        }
        let with_index = variant.contains("wi");
        let consuming = variant.starts_with("into");
        let (_, rf) = self.refs[r].clone().unwrap();
        let before = snapshot();
        let mut got: Vec<(usize, Option<Index>, String)> = Vec::new();
        let res = {
            let regs = &mut self.regs;
            catch(|| match variant {
                "elems" => { let m = regs[r].as_ref().unwrap(); got = consume(m.iter_elements(), &pat).into_iter().map(|(l, e)| (l, None, e.show())).collect(); }
                "elems_mut" => { let m = regs[r].as_mut().unwrap(); got = consume(m.iter_elements_mut(), &pat).into_iter().map(|(l, e)| (l, None, e.show())).collect(); }
                "into" => { let m = regs[r].take().unwrap(); got = consume(m.into_iter_elements(), &pat).into_iter().map(|(l, e)| (l, None, e.show())).collect(); }
                "wi" => { let m = regs[r].as_ref().unwrap(); got = consume(m.iter_elements_with_index(), &pat).into_iter().map(|(l, (i, e))| (l, Some(i), e.show())).collect(); }
                "wi_mut" => { let m = regs[r].as_mut().unwrap(); got = consume(m.iter_elements_mut_with_index(), &pat).into_iter().map(|(l, (i, e))| (l, Some(i), e.show())).collect(); }
                "into_wi" => { let m = regs[r].take().unwrap(); got = consume(m.into_iter_elements_with_index(), &pat).into_iter().map(|(l, (i, e))| (l, Some(i), e.show())).collect(); }
                "par" => { let m = regs[r].as_ref().unwrap(); let v: Vec<&E> = m.par_iter_elements().collect(); let n = v.len(); got = v.into_iter().enumerate().map(|(k, e)| (n - k, None, e.show())).collect(); }
                "par_mut" => { let m = regs[r].as_mut().unwrap(); let v: Vec<&mut E> = m.par_iter_elements_mut().collect(); let n = v.len(); got = v.into_iter().enumerate().map(|(k, e)| (n - k, None, e.show())).collect(); }
                "into_par" => { let m = regs[r].take().unwrap(); let v: Vec<E> = m.into_par_iter_elements().collect(); let n = v.len(); got = v.into_iter().enumerate().map(|(k, e)| (n - k, None, e.show())).collect(); }
                "par_wi" => { let m = regs[r].as_ref().unwrap(); let v: Vec<(Index, &E)> = m.par_iter_elements_with_index().collect(); let n = v.len(); got = v.into_iter().enumerate().map(|(k, (i, e))| (n - k, Some(i), e.show())).collect(); }
                "par_wi_mut" => { let m = regs[r].as_mut().unwrap(); let v: Vec<(Index, &mut E)> = m.par_iter_elements_mut_with_index().collect(); let n = v.len(); got = v.into_iter().enumerate().map(|(k, (i, e))| (n - k, Some(i), e.show())).collect(); }
                "into_par_wi" => { let m = regs[r].take().unwrap(); let v: Vec<(Index, E)> = m.into_par_iter_elements_with_index().collect(); let n = v.len(); got = v.into_iter().enumerate().map(|(k, (i, e))| (n - k, Some(i), e.show())).collect(); }
                _ => unreachable!(),
            })
        };
        if consuming { self.refs[r] = None; self.regs[r] = None; }
        let after = snapshot();
        let size = rf.nrows * rf.ncols;
        if res.is_none() {
            out.oracle_fail(&format!("{op}: iteration over {} elements panicked", E::KIND));
        } else {
            if got.len() != size { out.oracle_fail(&format!("{op}: {} items for {size} elements", got.len())); }
            if with_index {
                let mut seen = std::collections::HashSet::new();
                for (_, idx, _) in &got {
                    let i = idx.unwrap();
                    if i.row >= rf.nrows || i.col >= rf.ncols { out.oracle_fail(&format!("{op}: index ({}, {}) outside the {}x{} matrix", i.row, i.col, rf.nrows, rf.ncols)); }
                    if !seen.insert((i.row, i.col)) { out.oracle_fail(&format!("{op}: position ({}, {}) reported twice", i.row, i.col)); }
                }
            }
            if E::COUNTED {
                let dropped = after.dropped - before.dropped;
                let want = if consuming { size as u64 } else { 0 };
                if dropped != want || after.cloned != before.cloned { out.oracle_fail(&format!("{op}: {dropped} elements dropped and {} cloned, expected {want} and 0", after.cloned - before.cloned)); }
            }
        }
        let items: Vec<String> = got.iter().map(|(l, idx, val)| match idx {
            Some(i) if with_index => format!("{l}:{}.{}={val}", i.row, i.col),
            _ => format!("{l}:{val}"),
        }).collect();
        out.observe(&if res.is_some() { format!("ok [{}]", items.join(",")) } else { "panic".to_string() });
        if !consuming { self.check_reg(out, r, &op); }
    }
}

impl World<Tok> {
    /// reference result of an elementwise combination, or None when the shapes differ
    fn ew_ref(&self, a: usize, b: usize, f: &dyn Fn(&str, &str) -> String) -> Option<Ref> {
        let (_, ra) = self.refs[a].as_ref().unwrap();
        let (_, rb) = self.refs[b].as_ref().unwrap();
        if (ra.nrows, ra.ncols) != (rb.nrows, rb.ncols) {
            return None;
        }
        if ra.nrows == 0 || ra.ncols == 0 {
            return Some(Ref { nrows: ra.nrows, ncols: ra.ncols, rows: Vec::new() });
        }
        Some(Ref {
            nrows: ra.nrows,
            ncols: ra.ncols,
            rows: (0..ra.nrows).map(|i| (0..ra.ncols).map(|j| f(&ra.rows[i][j], &rb.rows[i][j])).collect()).collect(),
        })
    }

    /// `ew dst a b variant opname` — named methods (add..rem) and the generic operation with a
    /// recording closure (gen), in the three ownership variants
    pub fn ew(&mut self, out: &mut Out, dst: usize, a: usize, b: usize, variant: &str, opname: &str) {
        let op = format!("ew {dst} {a} {b} {variant} {opname}");
        out.announce(&op);
        let st_before = self.reg_str(a);
        let sym = match opname { "add" => "+", "sub" => "-", "mul" => "*", "div" => "/", "rem" => "%", _ => "|" };
        let spec: Box<dyn Fn(&str, &str) -> String> = if opname == "gen" {
            Box::new(|l: &str, r: &str| format!("[{l}|{r}]"))
        } else if variant == "ref" {
            Box::new(move |l: &str, r: &str| format!("({l}'{sym}{r}')"))
        } else {
            Box::new(move |l: &str, r: &str| format!("({l}{sym}{r}')"))
        };
        let want = self.ew_ref(a, b, &*spec);
        let mb = self.regs[b].take().unwrap();
        let calls = std::cell::Cell::new(0usize);
        let n_elems = self.regs[a].as_ref().unwrap().size();
        let (res, a_order): (Option<Result<Option<matreex::Matrix<Tok>>, matreex::Error>>, matreex::Order) = match variant {
            "ref" => {
                let ma = self.regs[a].as_ref().unwrap();
                let r = catch(|| match opname {
                    "add" => ma.elementwise_add(&mb),
                    "sub" => ma.elementwise_sub(&mb),
                    "mul" => ma.elementwise_mul(&mb),
                    "div" => ma.elementwise_div(&mb),
                    "rem" => ma.elementwise_rem(&mb),
                    _ => ma.elementwise_operation(&mb, |l, r| { calls.set(calls.get() + 1); Tok::new(format!("[{}|{}]", l.val, r.val)) }),
                });
                (r.map(|x| x.map(Some)), ma.order())
            }
            "consume" => {
                let ma = self.regs[a].take().unwrap();
                let o = ma.order();
                let r = catch(|| match opname {
                    "add" => ma.elementwise_add_consume_self(&mb),
                    "sub" => ma.elementwise_sub_consume_self(&mb),
                    "mul" => ma.elementwise_mul_consume_self(&mb),
                    "div" => ma.elementwise_div_consume_self(&mb),
                    "rem" => ma.elementwise_rem_consume_self(&mb),
                    _ => ma.elementwise_operation_consume_self(&mb, |l, r| { calls.set(calls.get() + 1); Tok::new(format!("[{}|{}]", l.val, r.val)) }),
                });
                self.refs[a] = None;
                (r.map(|x| x.map(Some)), o)
            }
            _ => {
                let ma = self.regs[a].as_mut().unwrap();
                let o = ma.order();
                let r = catch(|| match opname {
                    "add" => ma.elementwise_add_assign(&mb).map(|_| ()),
                    "sub" => ma.elementwise_sub_assign(&mb).map(|_| ()),
                    "mul" => ma.elementwise_mul_assign(&mb).map(|_| ()),
                    "div" => ma.elementwise_div_assign(&mb).map(|_| ()),
                    "rem" => ma.elementwise_rem_assign(&mb).map(|_| ()),
                    _ => ma.elementwise_operation_assign(&mb, |l, r| { calls.set(calls.get() + 1); l.val = format!("[{}|{}]", l.val, r.val); }).map(|_| ()),
                });
                (r.map(|x| x.map(|_| None)), o)
            }
        };
        self.regs[b] = Some(mb);
        let head = match &res {
            None => "panic".to_string(),
            Some(Err(e)) => format!("err {}", err_name(*e)),
            Some(Ok(_)) => "ok".to_string(),
        };
        // oracle: Ok exactly for equal logical shapes, ShapeNotConformable otherwise
        match (&want, head.as_str()) {
            (Some(_), "ok") | (None, "err ShapeNotConformable") => {}
            _ => out.oracle_fail(&format!("{op}: shapes {} but implementation gave `{head}`", if want.is_some() { "agree" } else { "differ" })),
        }
        if opname == "gen" {
            let expect_calls = if want.is_some() { n_elems } else { 0 };
            if calls.get() != expect_calls {
                out.oracle_fail(&format!("{op}: closure called {} times for {} positions", calls.get(), expect_calls));
            }
        }
        if let Some(Ok(m)) = res {
            match variant {
                "assign" => {
                    if let Some(w) = want { self.refs[a] = Some((a_order, w)); }
                }
                _ => {
                    self.regs[dst] = m;
                    self.refs[dst] = want.map(|w| (a_order, w));
                }
            }
        }
        if variant == "assign" && head != "ok" && self.reg_str(a) != st_before {
            out.oracle_fail(&format!("{op}: the failed call changed the matrix from `{st_before}` to `{}`", self.reg_str(a)));
        }
        out.count(&format!("ew:{}", if head == "ok" { "conformable" } else { "not-conformable" }));
        out.observe(&format!("{head} | {} | {} | {}", self.reg_str(dst), self.reg_str(a), self.reg_str(b)));
        for r in [dst, a, b] {
            self.check_reg(out, r, &op);
        }
    }

    /// `ewop dst a b sym form`: the + and - operators, form = o/b (owned/borrowed) for self and rhs
    pub fn ewop(&mut self, out: &mut Out, dst: usize, a: usize, b: usize, sym: char, form: &str) {
        let op = format!("ewop {dst} {a} {b} {sym} {form}");
        out.announce(&op);
        let self_owned = form.starts_with('o');
        let rhs_owned = form.ends_with('o');
        let spec: Box<dyn Fn(&str, &str) -> String> = if self_owned {
            Box::new(move |l: &str, r: &str| format!("({l}{sym}{r}')"))
        } else {
            Box::new(move |l: &str, r: &str| format!("({l}'{sym}{r}')"))
        };
        let want = self.ew_ref(a, b, &*spec);
        let a_order = self.regs[a].as_ref().unwrap().order();
        let res: Option<matreex::Matrix<Tok>> = match (self_owned, rhs_owned, sym) {
            (true, true, '+') => { let x = self.regs[a].take().unwrap(); let y = self.regs[b].take().unwrap(); catch(|| x + y) }
            (true, false, '+') => { let x = self.regs[a].take().unwrap(); let y = self.regs[b].as_ref().unwrap(); catch(|| x + y) }
            (false, true, '+') => { let y = self.regs[b].take().unwrap(); let x = self.regs[a].as_ref().unwrap(); catch(|| x + y) }
            (false, false, '+') => { let x = self.regs[a].as_ref().unwrap(); let y = self.regs[b].as_ref().unwrap(); catch(|| x + y) }
            (true, true, _) => { let x = self.regs[a].take().unwrap(); let y = self.regs[b].take().unwrap(); catch(|| x - y) }
            (true, false, _) => { let x = self.regs[a].take().unwrap(); let y = self.regs[b].as_ref().unwrap(); catch(|| x - y) }
            (false, true, _) => { let y = self.regs[b].take().unwrap(); let x = self.regs[a].as_ref().unwrap(); catch(|| x - y) }
            (false, false, _) => { let x = self.regs[a].as_ref().unwrap(); let y = self.regs[b].as_ref().unwrap(); catch(|| x - y) }
        };
        if self_owned { self.refs[a] = None; }
        if rhs_owned { self.refs[b] = None; }
        let head = if res.is_some() { "ok" } else { "panic" };
        if res.is_some() != want.is_some() {
            out.oracle_fail(&format!("{op}: shapes {} but the operator {}", if want.is_some() { "agree" } else { "differ" }, if res.is_some() { "returned" } else { "panicked" }));
        }
        if let Some(m) = res {
            self.regs[dst] = Some(m);
            self.refs[dst] = want.map(|w| (a_order, w));
        }
        out.count(&format!("ewop:{}", head));
        out.observe(&format!("{head} | {} | {} | {}", self.reg_str(dst), self.reg_str(a), self.reg_str(b)));
        for r in [dst, a, b] {
            self.check_reg(out, r, &op);
        }
    }

    /// `ewopassign a b sym form`: += / -= with an owned (o) or borrowed (b) right operand
    pub fn ewopassign(&mut self, out: &mut Out, a: usize, b: usize, sym: char, form: &str) {
        let op = format!("ewopassign {a} {b} {sym} {form}");
        out.announce(&op);
        let st_before = self.reg_str(a);
        let spec = move |l: &str, r: &str| format!("({l}{sym}{r}')");
        let want = self.ew_ref(a, b, &spec);
        let a_order = self.regs[a].as_ref().unwrap().order();
        let mut x = self.regs[a].take().unwrap();
        let res = if form == "o" {
            let y = self.regs[b].take().unwrap();
            self.refs[b] = None;
            if sym == '+' { catch(|| x += y) } else { catch(|| x -= y) }
        } else {
            let y = self.regs[b].as_ref().unwrap();
            if sym == '+' { catch(|| x += y) } else { catch(|| x -= y) }
        };
        self.regs[a] = Some(x);
        let head = if res.is_some() { "ok" } else { "panic" };
        if res.is_some() != want.is_some() {
            out.oracle_fail(&format!("{op}: shapes {} but the operator {}", if want.is_some() { "agree" } else { "differ" }, if res.is_some() { "returned" } else { "panicked" }));
        }
        if let Some(w) = want { self.refs[a] = Some((a_order, w)); }
        if head != "ok" && self.reg_str(a) != st_before {
            out.oracle_fail(&format!("{op}: the panicking operator changed the matrix from `{st_before}` to `{}`", self.reg_str(a)));
        }
        out.observe(&format!("{head} | {} | {} | {}", self.reg_str(a), self.reg_str(a), self.reg_str(b)));
        for r in [a, b] {
            self.check_reg(out, r, &op);
        }
    }

    /// `scgen dst a variant`: scalar_operation / _consume_self / _assign with a recording closure
    pub fn scgen(&mut self, out: &mut Out, dst: usize, a: usize, variant: &str) {
        let op = format!("scgen {dst} {a} {variant}");
        out.announce(&op);
        let scalar = Tok::new("S");
        let calls = std::cell::Cell::new(0usize);
        let (order, rf) = self.refs[a].clone().unwrap();
        let n = self.regs[a].as_ref().unwrap().size();
        let want = Ref { nrows: rf.nrows, ncols: rf.ncols, rows: rf.rows.iter().map(|r| r.iter().map(|e| format!("[{e}|S]")).collect()).collect() };
        let head;
        match variant {
            "ref" => {
                let m = self.regs[a].as_ref().unwrap();
                let r = catch(|| m.scalar_operation(&scalar, |e, s| { calls.set(calls.get() + 1); Tok::new(format!("[{}|{}]", e.val, s.val)) }));
                head = match r { Some(Ok(x)) => { self.regs[dst] = Some(x); self.refs[dst] = Some((order, want)); "ok".to_string() } Some(Err(e)) => format!("err {}", err_name(e)), None => "panic".to_string() };
            }
            "consume" => {
                let m = self.regs[a].take().unwrap();
                self.refs[a] = None;
                let r = catch(|| m.scalar_operation_consume_self(&scalar, |e, s| { calls.set(calls.get() + 1); Tok::new(format!("[{}|{}]", e.val, s.val)) }));
                head = match r { Some(Ok(x)) => { self.regs[dst] = Some(x); self.refs[dst] = Some((order, want)); "ok".to_string() } Some(Err(e)) => format!("err {}", err_name(e)), None => "panic".to_string() };
            }
            _ => {
                let m = self.regs[a].as_mut().unwrap();
                let r = catch(|| { m.scalar_operation_assign(&scalar, |e, s| { calls.set(calls.get() + 1); e.val = format!("[{}|{}]", e.val, s.val); }); });
                head = if r.is_some() { self.refs[a] = Some((order, want)); "ok".to_string() } else { "panic".to_string() };
            }
        }
        if head != "ok" || calls.get() != n {
            out.oracle_fail(&format!("{op}: outcome `{head}`, closure called {} times for {n} elements", calls.get()));
        }
        out.observe(&format!("{head} | {} | {}", self.reg_str(dst), self.reg_str(a)));
        self.check_reg(out, dst, &op);
        self.check_reg(out, a, &op);
    }

    /// `mul dst a b kind`: multiply / multiplication_like_operation / the four `*` operator forms
    pub fn mul(&mut self, out: &mut Out, dst: usize, a: usize, b: usize, kind: &str) {
        let op = format!("mul {dst} {a} {b} {kind}");
        out.announce(&op);
        let self_owned = matches!(kind, "multiply" | "like" | "op_oo" | "op_ob");
        let rhs_owned = matches!(kind, "multiply" | "like" | "op_oo" | "op_bo");
        let (ao, ra) = self.refs[a].clone().unwrap();
        let (_, rb) = self.refs[b].clone().unwrap();
        // reference: the textbook product over symbolic terms
        let pa = if self_owned { "" } else { "'" };
        let pb = if rhs_owned { "" } else { "'" };
        let want: Option<Ref> = if ra.ncols != rb.nrows {
            None
        } else if ra.nrows == 0 || rb.ncols == 0 {
            Some(Ref { nrows: ra.nrows, ncols: rb.ncols, rows: Vec::new() })
        } else {
            let k = ra.ncols;
            Some(Ref {
                nrows: ra.nrows,
                ncols: rb.ncols,
                rows: (0..ra.nrows).map(|i| (0..rb.ncols).map(|j| {
                    if k == 0 {
                        "d".to_string()
                    } else if kind == "like" {
                        format!("<{}|{}>", (0..k).map(|t| ra.rows[i][t].clone()).collect::<Vec<_>>().join(";"), (0..k).map(|t| rb.rows[t][j].clone()).collect::<Vec<_>>().join(";"))
                    } else {
                        let mut acc = format!("({}{pa}'*{}{pb}')", ra.rows[i][0], rb.rows[0][j]);
                        for t in 1..k {
                            acc = format!("({acc}+({}{pa}'*{}{pb}'))", ra.rows[i][t], rb.rows[t][j]);
                        }
                        acc
                    }
                }).collect()).collect(),
            })
        };
        let calls = std::cell::Cell::new(0usize);
        let bad_slices = std::cell::Cell::new(0usize);
        let k_expected = ra.ncols;
        let res: Option<Result<matreex::Matrix<Tok>, matreex::Error>> = match kind {
            "multiply" => { let x = self.regs[a].take().unwrap(); let y = self.regs[b].take().unwrap(); catch(|| x.multiply(y)) }
            "like" => {
                let x = self.regs[a].take().unwrap();
                let y = self.regs[b].take().unwrap();
                catch(|| x.multiplication_like_operation(y, |ls: &[Tok], rs: &[Tok]| {
                    calls.set(calls.get() + 1);
                    if ls.is_empty() || ls.len() != rs.len() || ls.len() != k_expected { bad_slices.set(bad_slices.get() + 1); }
                    Tok::new(format!("<{}|{}>", ls.iter().map(|t| t.val.clone()).collect::<Vec<_>>().join(";"), rs.iter().map(|t| t.val.clone()).collect::<Vec<_>>().join(";")))
                }))
            }
            "op_oo" => { let x = self.regs[a].take().unwrap(); let y = self.regs[b].take().unwrap(); catch(|| x * y).map(Ok) }
            "op_ob" => { let x = self.regs[a].take().unwrap(); let y = self.regs[b].as_ref().unwrap(); catch(|| x * y).map(Ok) }
            "op_bo" => { let y = self.regs[b].take().unwrap(); let x = self.regs[a].as_ref().unwrap(); catch(|| x * y).map(Ok) }
            _ => { let x = self.regs[a].as_ref().unwrap(); let y = self.regs[b].as_ref().unwrap(); catch(|| x * y).map(Ok) }
        };
        if self_owned { self.refs[a] = None; }
        if rhs_owned { self.refs[b] = None; }
        let is_op = kind.starts_with("op_");
        let head = match &res {
            None => "panic".to_string(),
            Some(Err(e)) => format!("err {}", err_name(*e)),
            Some(Ok(_)) => "ok".to_string(),
        };
        let want_head = if want.is_some() { "ok" } else if is_op { "panic" } else { "err ShapeNotConformable" };
        if head != want_head {
            out.oracle_fail(&format!("{op}: expected `{want_head}`, implementation gave `{head}`"));
        }
        if kind == "like" {
            let expect_calls = match &want { Some(w) if k_expected > 0 => w.nrows * w.ncols, _ => 0 };
            if calls.get() != expect_calls || bad_slices.get() != 0 {
                out.oracle_fail(&format!("{op}: closure called {} times (expected {expect_calls}), {} calls with empty / unequal / wrong-length slices", calls.get(), bad_slices.get()));
            }
        }
        if let Some(Ok(m)) = res {
            self.regs[dst] = Some(m);
            self.refs[dst] = want.map(|w| (ao, w));
        }
        out.count(&format!("mul:{head}"));
        out.observe(&format!("{head} | {} | {} | {}", self.reg_str(dst), self.reg_str(a), self.reg_str(b)));
        for r in [dst, a, b] {
            self.check_reg(out, r, &op);
        }
    }

    /// `iter r variant pattern`: element iterators (sequential and parallel), consumed following
    /// a pattern of F(ront)/B(ack) calls and then drained from the front
    pub fn iter(&mut self, out: &mut Out, r: usize, variant: &str, pattern: &str) {
        use matreex::parallel::*;
        use matreex::Index;
        let op = format!("iter {r} {variant} {pattern}");
        out.announce(&op);
        let pat: Vec<char> = if pattern == "-" { Vec::new() } else { pattern.chars().collect() };
        // generic consumption of an ExactSize + DoubleEnded iterator
        fn consume<I: ExactSizeIterator + DoubleEndedIterator>(mut it: I, pat: &[char]) -> Vec<(usize, I::Item)> {
            let mut items = Vec::new();
            let mut p = pat.iter();
            loop {
                let len = it.len();
                let x = match p.next() {
                    Some('B') => it.next_back(),
                    _ => it.next(),
                };
                match x {
                    Some(v) => items.push((len, v)),
                    None => break,
                }
            }
            items
        }
        let with_index = variant.contains("wi");
        let consuming = variant.starts_with("into");
        let (order, rf) = self.refs[r].clone().unwrap();
        let _ = order;
        // (len before the call, index if reported, payload, address of the element if borrowed)
        let mut got: Vec<(usize, Option<Index>, String, usize)> = Vec::new();
        let res = {
            let regs = &mut self.regs;
            catch(|| match variant {
                "elems" => { let m = regs[r].as_ref().unwrap(); got = consume(m.iter_elements(), &pat).into_iter().map(|(l, e)| (l, None, e.val.clone(), e as *const Tok as usize)).collect(); }
                "elems_mut" => { let m = regs[r].as_mut().unwrap(); got = consume(m.iter_elements_mut(), &pat).into_iter().map(|(l, e)| (l, None, e.val.clone(), e as *const Tok as usize)).collect(); }
                "into" => { let m = regs[r].take().unwrap(); got = consume(m.into_iter_elements(), &pat).into_iter().map(|(l, e)| (l, None, e.val.clone(), (1usize << 63) | e.id as usize)).collect(); }
                "wi" => { let m = regs[r].as_ref().unwrap(); got = consume(m.iter_elements_with_index(), &pat).into_iter().map(|(l, (i, e))| (l, Some(i), e.val.clone(), e as *const Tok as usize)).collect(); }
                "wi_mut" => { let m = regs[r].as_mut().unwrap(); got = consume(m.iter_elements_mut_with_index(), &pat).into_iter().map(|(l, (i, e))| (l, Some(i), e.val.clone(), e as *const Tok as usize)).collect(); }
                "into_wi" => { let m = regs[r].take().unwrap(); got = consume(m.into_iter_elements_with_index(), &pat).into_iter().map(|(l, (i, e))| (l, Some(i), e.val.clone(), (1usize << 63) | e.id as usize)).collect(); }
                // parallel forms: collected (an indexed parallel iterator collects in order); the
                // `len` column is the number of items still to come
                "par" => { let m = regs[r].as_ref().unwrap(); let v: Vec<&Tok> = m.par_iter_elements().collect(); let n = v.len(); got = v.into_iter().enumerate().map(|(k, e)| (n - k, None, e.val.clone(), e as *const Tok as usize)).collect(); }
                "par_mut" => { let m = regs[r].as_mut().unwrap(); let v: Vec<&mut Tok> = m.par_iter_elements_mut().collect(); let n = v.len(); got = v.into_iter().enumerate().map(|(k, e)| (n - k, None, e.val.clone(), e as *const Tok as usize)).collect(); }
                "into_par" => { let m = regs[r].take().unwrap(); let v: Vec<Tok> = m.into_par_iter_elements().collect(); let n = v.len(); got = v.into_iter().enumerate().map(|(k, e)| (n - k, None, e.val.clone(), (1usize << 63) | e.id as usize)).collect(); }
                "par_wi" => { let m = regs[r].as_ref().unwrap(); let v: Vec<(Index, &Tok)> = m.par_iter_elements_with_index().collect(); let n = v.len(); got = v.into_iter().enumerate().map(|(k, (i, e))| (n - k, Some(i), e.val.clone(), e as *const Tok as usize)).collect(); }
                "par_wi_mut" => { let m = regs[r].as_mut().unwrap(); let v: Vec<(Index, &mut Tok)> = m.par_iter_elements_mut_with_index().collect(); let n = v.len(); got = v.into_iter().enumerate().map(|(k, (i, e))| (n - k, Some(i), e.val.clone(), e as *const Tok as usize)).collect(); }
                "into_par_wi" => { let m = regs[r].take().unwrap(); let v: Vec<(Index, Tok)> = m.into_par_iter_elements_with_index().collect(); let n = v.len(); got = v.into_iter().enumerate().map(|(k, (i, e))| (n - k, Some(i), e.val.clone(), (1usize << 63) | e.id as usize)).collect(); }
                _ => unreachable!(),
            })
        };
        if consuming { self.refs[r] = None; }
        // oracle: every element exactly once; every reported index is the unique coordinate for
        // which get() returns that very element (same address for the borrowing variants)
        let size = rf.nrows * rf.ncols;
        if res.is_none() {
            out.oracle_fail(&format!("{op}: iteration panicked"));
        } else {
            if got.len() != size {
                out.oracle_fail(&format!("{op}: {} items for {size} elements", got.len()));
            }
            let mut seen = std::collections::HashSet::new();
            for (_, idx, val, addr) in &got {
                if !seen.insert(*addr) {
                    out.oracle_fail(&format!("{op}: element {val} visited twice"));
                }
                if let Some(i) = idx {
                    if i.row >= rf.nrows || i.col >= rf.ncols || rf.rows[i.row][i.col] != *val {
                        out.oracle_fail(&format!("{op}: element {val} reported at ({}, {}), where the matrix holds {}", i.row, i.col,
                            if i.row < rf.nrows && i.col < rf.ncols { rf.rows[i.row][i.col].clone() } else { "nothing (out of bounds)".to_string() }));
                    } else if *addr >> 63 == 0 {
                        if let Some(m) = self.regs[r].as_ref() {
                            if m.get((i.row, i.col)).map(|e| e as *const Tok as usize).ok() != Some(*addr) {
                                out.oracle_fail(&format!("{op}: get(({}, {})) is not the element that was paired with this index", i.row, i.col));
                            }
                        }
                    }
                }
            }
        }
        let items: Vec<String> = got.iter().map(|(l, idx, val, _)| match idx {
            Some(i) if with_index => format!("{l}:{}.{}={val}", i.row, i.col),
            _ => format!("{l}:{val}"),
        }).collect();
        out.observe(&if res.is_some() { format!("ok [{}]", items.join(",")) } else { "panic".to_string() });
        self.check_reg(out, r, &op);
    }

    /// install a freshly constructed matrix (or record the failure) and compare with the reference
    fn install(&mut self, out: &mut Out, op: &str, dst: usize, res: Option<Result<matreex::Matrix<Tok>, matreex::Error>>, want: Result<Ref, &str>) {
        let obs = match res {
            None => "panic".to_string(),
            Some(Err(e)) => format!("err {}", err_name(e)),
            Some(Ok(m)) => {
                let s = format!("ok | {}", st_str(&m));
                self.regs[dst] = Some(m);
                s
            }
        };
        match &want {
            Ok(rf) => {
                if !obs.starts_with("ok") {
                    out.oracle_fail(&format!("{op}: expected a {}x{} matrix, implementation gave `{obs}`", rf.nrows, rf.ncols));
                    self.refs[dst] = None;
                    self.regs[dst] = None;
                } else {
                    self.refs[dst] = Some((matreex::Order::RowMajor, rf.clone()));
                }
            }
            Err(w) => {
                if obs != *w {
                    out.oracle_fail(&format!("{op}: expected `{w}`, implementation gave `{obs}`"));
                    self.refs[dst] = None;
                    self.regs[dst] = None;
                }
                // a failed conversion assigns nothing: the destination register keeps its matrix
            }
        }
        out.observe(&obs);
        self.check_reg(out, dst, op);
    }

    /// `rows dst kind lens`: every conversion from rows
    pub fn rows(&mut self, out: &mut Out, dst: usize, kind: &str, lens: &[usize]) {
        let lens_s = if lens.is_empty() { "-".to_string() } else { lens.iter().map(|l| l.to_string()).collect::<Vec<_>>().join(",") };
        // the kinds `iter_liar_*` go through `collect()` like `iter`, with iterators whose exact-looking
        // `size_hint` is wrong (every row claims the first row's length; the row sequence claims one row
        // more / fewer than it has): `size_hint` is advisory, the result must be that of honest iterators,
        // and the operation line (and the model) see a plain `iter`
        let line_kind = if kind.starts_with("iter_liar") { "iter" } else { kind };
        let op = format!("rows {dst} {line_kind} {lens_s}");
        out.announce(&op);
        let mut next = 0usize;
        let rows: Vec<Vec<Tok>> = lens.iter().map(|&n| (0..n).map(|_| { next += 1; Tok::new(next.to_string()) }).collect()).collect();
        let borrowed = kind == "slice_array" || kind == "slice_vec";
        let ncols = lens.first().copied().unwrap_or(0);
        let uniform = lens.iter().all(|&l| l == ncols);
        let want: Result<Ref, &str> = if uniform {
            let mut k = 0usize;
            Ok(Ref { nrows: lens.len(), ncols, rows: if ncols == 0 { Vec::new() } else { lens.iter().map(|&n| (0..n).map(|_| { k += 1; if borrowed { format!("{k}'") } else { k.to_string() } }).collect()).collect() } })
        } else if line_kind == "iter" { Err("panic") } else { Err("err LengthInconsistent") };
        fn arr<const C: usize>(row: Vec<Tok>) -> [Tok; C] { row.try_into().ok().unwrap() }
        fn from_arrays<const C: usize>(kind: &str, rows: Vec<Vec<Tok>>) -> matreex::Matrix<Tok> {
            let v: Vec<[Tok; C]> = rows.into_iter().map(arr::<C>).collect();
            match kind {
                "vec_array" => matreex::Matrix::from(v),
                "slice_array" => matreex::Matrix::from(v.as_slice()),
                _ => match v.len() {
                    0 => matreex::Matrix::from(<[[Tok; C]; 0]>::try_from(v).ok().unwrap()),
                    1 => matreex::Matrix::from(<[[Tok; C]; 1]>::try_from(v).ok().unwrap()),
                    2 => matreex::Matrix::from(<[[Tok; C]; 2]>::try_from(v).ok().unwrap()),
                    3 => matreex::Matrix::from(<[[Tok; C]; 3]>::try_from(v).ok().unwrap()),
                    _ => matreex::Matrix::from(<[[Tok; C]; 4]>::try_from(v).ok().unwrap()),
                },
            }
        }
        fn from_array_of_vecs(rows: Vec<Vec<Tok>>) -> Result<matreex::Matrix<Tok>, matreex::Error> {
            match rows.len() {
                0 => matreex::Matrix::try_from(<[Vec<Tok>; 0]>::try_from(rows).ok().unwrap()),
                1 => matreex::Matrix::try_from(<[Vec<Tok>; 1]>::try_from(rows).ok().unwrap()),
                2 => matreex::Matrix::try_from(<[Vec<Tok>; 2]>::try_from(rows).ok().unwrap()),
                3 => matreex::Matrix::try_from(<[Vec<Tok>; 3]>::try_from(rows).ok().unwrap()),
                4 => matreex::Matrix::try_from(<[Vec<Tok>; 4]>::try_from(rows).ok().unwrap()),
                _ => matreex::Matrix::try_from(<[Vec<Tok>; 5]>::try_from(rows).ok().unwrap()),
            }
        }
        let res: Option<Result<matreex::Matrix<Tok>, matreex::Error>> = match kind {
            "array" | "vec_array" | "slice_array" => catch(|| Ok(match ncols {
                0 => from_arrays::<0>(kind, rows),
                1 => from_arrays::<1>(kind, rows),
                2 => from_arrays::<2>(kind, rows),
                3 => from_arrays::<3>(kind, rows),
                _ => from_arrays::<4>(kind, rows),
            })),
            "array_vec" => catch(|| from_array_of_vecs(rows)),
            "vec_vec" => catch(|| matreex::Matrix::try_from(rows)),
            "slice_vec" => catch(|| matreex::Matrix::try_from(rows.as_slice())),
            "iter_liar_rows" => catch(|| Ok(rows.into_iter().map(|r| Liar { it: r.into_iter(), claim: ncols }).collect::<matreex::Matrix<Tok>>())),
            "iter_liar_over" => { let n = rows.len(); catch(|| Ok(Liar { it: rows.into_iter(), claim: n }.collect::<matreex::Matrix<Tok>>())) }
            "iter_liar_under" => { let n = rows.len(); catch(|| Ok(Liar { it: rows.into_iter(), claim: n.saturating_sub(2) }.collect::<matreex::Matrix<Tok>>())) }
            _ => catch(|| Ok(rows.into_iter().collect::<matreex::Matrix<Tok>>())),
        };
        out.count(&format!("rows:{}", if uniform { "uniform" } else { "ragged" }));
        out.count(&format!("kind:{kind}"));
        self.install(out, &op, dst, res, want);
    }

    pub fn from_vec(&mut self, out: &mut Out, dst: usize, col: bool, n: usize) {
        let op = format!("{} {dst} {n}", if col { "from_col" } else { "from_row" });
        out.announce(&op);
        let v: Vec<Tok> = (1..=n).map(|k| Tok::new(k.to_string())).collect();
        let res = catch(|| Ok(if col { matreex::Matrix::from_col(v) } else { matreex::Matrix::from_row(v) }));
        let items: Vec<String> = (1..=n).map(|k| k.to_string()).collect();
        let want = if col { Ref { nrows: n, ncols: 1, rows: items.into_iter().map(|x| vec![x]).collect() } } else { Ref { nrows: 1, ncols: n, rows: if n == 0 { Vec::new() } else { vec![items] } } };
        self.install(out, &op, dst, res, Ok(want));
    }

    /// with_value / with_default / with_initializer (the initializer's calls are recorded)
    pub fn ctor(&mut self, out: &mut Out, dst: usize, kind: &str, nr: usize, nc: usize) {
        let op = format!("ctor {dst} {kind} {nr} {nc}");
        out.announce(&op);
        let calls = std::cell::RefCell::new(Vec::new());
        let res = match kind {
            "with_value" => catch(|| spelled!(nr, nc, |sh| matreex::Matrix::with_value(sh, Tok::new("v")))),
            "with_default" => catch(|| spelled!(nr, nc, |sh| matreex::Matrix::<Tok>::with_default(sh))),
            _ => catch(|| spelled!(nr, nc, |sh| matreex::Matrix::with_initializer(sh, |i| { calls.borrow_mut().push((i.row, i.col)); Tok::new(format!("i{}.{}", i.row, i.col)) }))),
        };
        let n = nr * nc;
        let want = Ref { nrows: nr, ncols: nc, rows: if n == 0 { Vec::new() } else { (0..nr).map(|r| (0..nc).map(|c| match kind {
            "with_value" => if r * nc + c + 1 < n { "v'".to_string() } else { "v".to_string() },
            "with_default" => "d".to_string(),
            _ => format!("i{r}.{c}"),
        }).collect()).collect() } };
        if kind == "with_init" {
            let expect: Vec<(usize, usize)> = if n == 0 { Vec::new() } else { (0..nr).flat_map(|r| (0..nc).map(move |c| (r, c))).collect() };
            if *calls.borrow() != expect {
                out.oracle_fail(&format!("{op}: the initializer was called with {:?}", calls.borrow()));
            }
        }
        self.install(out, &op, dst, res, Ok(want));
    }

    /// `eq a b` (Tok equality compares payloads)
    pub fn eq(&mut self, out: &mut Out, a: usize, b: usize) -> Option<bool> {
        let op = format!("eq {a} {b}");
        out.announce(&op);
        let res = catch(|| self.regs[a].as_ref().unwrap() == self.regs[b].as_ref().unwrap());
        let (_, ra) = self.refs[a].as_ref().unwrap();
        let (_, rb) = self.refs[b].as_ref().unwrap();
        // pairwise equality of the elements at equal logical positions, by the element type's own
        // `==` (a token payload that starts with "nan" is equal to nothing, itself included)
        let want = (ra.nrows, ra.ncols) == (rb.nrows, rb.ncols)
            && (ra.nrows == 0 || ra.ncols == 0 || (ra.rows == rb.rows && !ra.rows.iter().flatten().any(|x| x.starts_with("nan"))));
        match res {
            None => { out.oracle_fail(&format!("{op}: comparison panicked")); out.observe("panic"); None }
            Some(v) => {
                if v != want {
                    out.oracle_fail(&format!("{op}: == returned {v} for matrices that are logically {}", if want { "equal" } else { "different" }));
                }
                out.count(if v { "eq:true" } else { "eq:false" });
                out.observe(&format!("ok {v}"));
                Some(v)
            }
        }
    }

    /// `*m.get_mut((i, j))? = <element with the given payload>`
    pub fn poke(&mut self, out: &mut Out, r: usize, i: usize, j: usize, payload: &str) {
        let op = format!("poke {r} {i} {j} {payload}");
        out.announce(&op);
        let m = self.regs[r].as_mut().unwrap();
        let res = catch(|| m.get_mut((i, j)).map(|e| { *e = <Tok as Elem>::make(payload.to_string()); }));
        let (order, mut rf) = self.refs[r].take().unwrap();
        let valid = i < rf.nrows && j < rf.ncols;
        if valid { rf.rows[i][j] = payload.to_string(); }
        self.refs[r] = Some((order, rf));
        let m = self.regs[r].as_ref().unwrap();
        let obs = match res {
            None => "panic".to_string(),
            Some(Ok(())) => format!("ok | {}", st_str(m)),
            Some(Err(e)) => format!("err {} | {}", err_name(e), st_str(m)),
        };
        if obs.starts_with("ok") != valid {
            out.oracle_fail(&format!("{op}: expected {}, implementation gave `{obs}`", if valid { "Ok" } else { "Err(IndexOutOfBounds)" }));
        }
        out.observe(&obs);
        self.check_reg(out, r, &op);
    }

    /// `let e = m.get_mut((i, j))?; *e = h(*e)`: in-place update of one element (History operation `updAt`): the old
    /// element is consumed, `h(old)` takes its place
    pub fn bump(&mut self, out: &mut Out, r: usize, i: usize, j: usize) {
        let op = format!("bump {r} {i} {j}");
        out.announce(&op);
        let m = self.regs[r].as_mut().unwrap();
        let res = catch(|| m.get_mut((i, j)).map(|e| { let old = e.show(); *e = <Tok as Elem>::make(format!("h({old})")); }));
        let (order, mut rf) = self.refs[r].take().unwrap();
        let valid = i < rf.nrows && j < rf.ncols;
        if valid { let old = rf.rows[i][j].clone(); rf.rows[i][j] = format!("h({old})"); }
        self.refs[r] = Some((order, rf));
        let m = self.regs[r].as_ref().unwrap();
        let obs = match res {
            None => "panic".to_string(),
            Some(Ok(())) => format!("ok | {}", st_str(m)),
            Some(Err(e)) => format!("err {} | {}", err_name(e), st_str(m)),
        };
        if obs.starts_with("ok") != valid {
            out.oracle_fail(&format!("{op}: expected {}, implementation gave `{obs}`", if valid { "Ok" } else { "Err(IndexOutOfBounds)" }));
        }
        out.observe(&obs);
        self.check_reg(out, r, &op);
    }

    pub fn display(&mut self, out: &mut Out, r: usize) -> Option<String> {
        let op = format!("display {r}");
        out.announce(&op);
        let res = catch(|| format!("{}", self.regs[r].as_ref().unwrap()));
        match res {
            None => { out.oracle_fail(&format!("{op}: Display panicked")); out.observe("panic"); None }
            Some(t) => {
                out.observe(&format!("ok {}", t.replace('\\', "\\\\").replace('\n', "\\n").replace('\r', "\\r").replace('\t', "\\t")));
                Some(t)
            }
        }
    }

    /// logical view through get(): extents and rows
    pub fn lview(&mut self, out: &mut Out, r: usize) -> String {
        let op = format!("lview {r}");
        out.announce(&op);
        let m = self.regs[r].as_ref().unwrap();
        let rows: Vec<String> = (0..m.nrows()).map(|i| (0..m.ncols()).map(|j| m.get((i, j)).map(|e| e.val.clone()).unwrap_or("?".into())).collect::<Vec<_>>().join(";")).collect();
        let s = format!("lv {}x{} [{}]", m.nrows(), m.ncols(), rows.join(","));
        out.observe(&s);
        s
    }

    /// `clone dst a`: Matrix::clone (every element cloned: primes)
    pub fn clone_reg(&mut self, out: &mut Out, dst: usize, a: usize) {
        let op = format!("clone {dst} {a}");
        out.announce(&op);
        let before = snapshot();
        let m = self.regs[a].as_ref().unwrap().clone();
        let after = snapshot();
        let (o, rf) = self.refs[a].clone().unwrap();
        if (after.cloned - before.cloned) as usize != rf.nrows * rf.ncols || after.created != before.created || after.dropped != before.dropped || after.defaults != before.defaults {
            out.oracle_fail(&format!("{op}: cloning a {}x{} matrix made {} clones, {} other creations, {} drops", rf.nrows, rf.ncols, after.cloned - before.cloned, (after.created - before.created) + (after.defaults - before.defaults), after.dropped - before.dropped));
        }
        let want = Ref { nrows: rf.nrows, ncols: rf.ncols, rows: rf.rows.iter().map(|r| r.iter().map(|e| format!("{e}'")).collect()).collect() };
        let text = format!("ok | {}", st_str(&m));
        self.regs[dst] = Some(m);
        self.refs[dst] = Some((o, want));
        out.observe(&text);
        self.check_reg(out, dst, &op);
    }

    /// apply(f): every element updated in place, once
    pub fn apply(&mut self, out: &mut Out, r: usize) {
        let op = format!("apply {r}");
        out.announce(&op);
        let calls = std::cell::Cell::new(0usize);
        let n = self.regs[r].as_ref().unwrap().size();
        let m = self.regs[r].as_mut().unwrap();
        let res = catch(|| { m.apply(|e| { calls.set(calls.get() + 1); e.val = format!("f({})", e.val); }); });
        let (order, rf) = self.refs[r].take().unwrap();
        self.refs[r] = Some((order, Ref { nrows: rf.nrows, ncols: rf.ncols, rows: rf.rows.iter().map(|x| x.iter().map(|e| format!("f({e})")).collect()).collect() }));
        if res.is_none() || calls.get() != n { out.oracle_fail(&format!("{op}: closure called {} times for {n} elements", calls.get())); }
        out.observe(&format!("ok | {}", self.reg_str(r)));
        self.check_reg(out, r, &op);
    }

    /// map (consuming) / map_ref: a new matrix of the same shape and order
    pub fn map(&mut self, out: &mut Out, dst: usize, r: usize, by_ref: bool) {
        let op = format!("{} {dst} {r}", if by_ref { "map_ref" } else { "map" });
        out.announce(&op);
        let (order, rf) = self.refs[r].clone().unwrap();
        let want = Ref { nrows: rf.nrows, ncols: rf.ncols, rows: rf.rows.iter().map(|x| x.iter().map(|e| format!("g({e})")).collect()).collect() };
        let res = if by_ref {
            let m = self.regs[r].as_ref().unwrap();
            catch(|| m.map_ref(|e| Tok::new(format!("g({})", e.val))))
        } else {
            let m = self.regs[r].take().unwrap();
            self.refs[r] = None;
            catch(|| m.map(|e| Tok::new(format!("g({})", e.val))))
        };
        let head = match res {
            Some(Ok(x)) => { self.regs[dst] = Some(x); self.refs[dst] = Some((order, want)); "ok".to_string() }
            Some(Err(e)) => { out.oracle_fail(&format!("{op}: {}", err_name(e))); format!("err {}", err_name(e)) }
            None => { out.oracle_fail(&format!("{op}: panicked")); "panic".to_string() }
        };
        out.observe(&format!("{head} | {} | {}", self.reg_str(dst), self.reg_str(r)));
        self.check_reg(out, dst, &op);
        self.check_reg(out, r, &op);
    }

    /// contains(&value)
    pub fn contains(&mut self, out: &mut Out, r: usize, payload: &str) {
        let op = format!("contains {r} {payload}");
        let probe = Tok::new(payload);
        out.announce(&op);
        let res = catch(|| self.regs[r].as_ref().unwrap().contains(&probe));
        let (_, rf) = self.refs[r].as_ref().unwrap();
        let want = rf.rows.iter().flatten().any(|e| e == payload);
        if res != Some(want) { out.oracle_fail(&format!("{op}: returned {:?}, expected {want}", res)); }
        out.observe(&format!("ok {}", res.unwrap_or(false)));
    }
}
