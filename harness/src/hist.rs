//! Register-file interpreter: executes protocol operations on real matrices, prints the canonical
//! observation, and keeps — independently of the crate and of the Lean model — a plain row-of-rows
//! reference (`Ref`) on which the property's oracle is evaluated after every operation.

use crate::common::*;
use crate::tok::*;
use matreex::{Matrix, Order};

/// plain row-of-rows reference model (the oracle's view of a matrix)
#[derive(Clone, Debug, PartialEq)]
pub struct Ref {
    pub nrows: usize,
    pub ncols: usize,
    pub rows: Vec<Vec<String>>,
}

impl Ref {
    pub fn from_mem(order: Order, nrows: usize, ncols: usize, mem: &[String]) -> Ref {
        let rows = (0..nrows)
            .map(|r| {
                (0..ncols)
                    .map(|c| match order {
                        Order::RowMajor => mem[r * ncols + c].clone(),
                        Order::ColMajor => mem[c * nrows + r].clone(),
                    })
                    .collect()
            })
            .collect();
        Ref { nrows, ncols, rows }
    }
    pub fn transposed(&self) -> Ref {
        Ref {
            nrows: self.ncols,
            ncols: self.nrows,
            rows: (0..self.ncols).map(|c| (0..self.nrows).map(|r| self.rows[r][c].clone()).collect()).collect(),
        }
    }
    /// memory-order sequence for the given order
    pub fn mem(&self, order: Order) -> Vec<String> {
        match order {
            Order::RowMajor => self.rows.iter().flatten().cloned().collect(),
            Order::ColMajor => (0..self.ncols).flat_map(|c| (0..self.nrows).map(move |r| (r, c))).map(|(r, c)| self.rows[r][c].clone()).collect(),
        }
    }
}

pub struct World<E: Elem> {
    pub regs: Vec<Option<Matrix<E>>>,
    pub refs: Vec<Option<(Order, Ref)>>,
}

pub fn st_str<E: Elem>(m: &Matrix<E>) -> String {
    let mem: Vec<String> = m.iter_elements().map(|e| e.show()).collect();
    format!("st {} {}x{} [{}]", ord_ch(m.order()), m.nrows(), m.ncols(), mem.join(","))
}

impl<E: Elem> World<E> {
    pub fn new(out: &mut Out) -> Self {
        out.op(&format!("elem {}", E::KIND), "ok");
        World { regs: (0..8).map(|_| None).collect(), refs: (0..8).map(|_| None).collect() }
    }

    /// the C01 oracle on one register: extents multiply to the size, every coordinate resolves
    /// through `get` to the element the reference holds, storage order as expected
    pub fn check_reg(&self, out: &mut Out, r: usize, what: &str) {
        let (Some(m), Some((order, rf))) = (&self.regs[r], &self.refs[r]) else { return };
        if m.order() != *order {
            out.oracle_fail(&format!("{what}: order is {:?}, expected {:?}", m.order(), order));
        }
        if (m.nrows(), m.ncols()) != (rf.nrows, rf.ncols) {
            out.oracle_fail(&format!("{what}: shape is {}x{}, expected {}x{}", m.nrows(), m.ncols(), rf.nrows, rf.ncols));
            return;
        }
        if (m.nrows() as u128) * (m.ncols() as u128) != m.size() as u128 {
            out.oracle_fail(&format!("{what}: {}x{} matrix holds {} elements", m.nrows(), m.ncols(), m.size()));
            return;
        }
        for i in 0..rf.nrows {
            for j in 0..rf.ncols {
                match m.get((i, j)) {
                    Ok(e) if e.show() == rf.rows[i][j] => {}
                    Ok(e) => out.oracle_fail(&format!("{what}: element ({i},{j}) is {}, expected {}", e.show(), rf.rows[i][j])),
                    Err(e) => out.oracle_fail(&format!("{what}: get(({i},{j})) failed with {}", err_name(e))),
                }
            }
        }
    }

    pub fn new_matrix(&mut self, out: &mut Out, r: usize, order: Order, nr: usize, nc: usize, base: usize) {
        let op = format!("new {r} {} {nr} {nc} {base}", ord_ch(order));
        out.announce(&op);
        let m = mk(order, nr, nc, |k| E::make((base + k).to_string()));
        let mem: Vec<String> = m.iter_elements().map(|e| e.show()).collect();
        self.refs[r] = Some((order, Ref::from_mem(order, nr, nc, &mem)));
        out.observe(&format!("ok | {}", st_str(&m)));
        self.regs[r] = Some(m);
        self.check_reg(out, r, &op);
    }

    pub fn drop_reg(&mut self, out: &mut Out, r: usize) {
        out.announce(&format!("drop {r}"));
        self.regs[r] = None;
        self.refs[r] = None;
        out.observe("ok");
    }

    /// the five order / transposition operations; the ledger must stay silent (elements are moved)
    pub fn order_op(&mut self, out: &mut Out, r: usize, name: &str, arg: Option<Order>) {
        let op = match arg {
            Some(o) => format!("{name} {r} {}", ord_ch(o)),
            None => format!("{name} {r}"),
        };
        out.announce(&op);
        let before = snapshot();
        let m = self.regs[r].as_mut().unwrap();
        let old_order = m.order();
        let res = catch(|| match name {
            "transpose" => { m.transpose(); }
            "switch" => { m.switch_order(); }
            "switch_wr" => { m.switch_order_without_rearrangement(); }
            "set_order" => { m.set_order(arg.unwrap()); }
            "set_order_wr" => { m.set_order_without_rearrangement(arg.unwrap()); }
            _ => unreachable!(),
        });
        let after = snapshot();
        if (after.cloned, after.dropped, after.created, after.defaults) != (before.cloned, before.dropped, before.created, before.defaults) {
            out.oracle_fail(&format!("{op}: elements were cloned/dropped/created ({:?} -> {:?})", before, after));
        }
        // reference: what the property says each operation does
        let (order, rf) = self.refs[r].take().unwrap();
        let flip = |o: Order| if o == Order::RowMajor { Order::ColMajor } else { Order::RowMajor };
        let new_ref = match name {
            "transpose" => (order, rf.transposed()),
            "switch" => (flip(order), rf),
            "switch_wr" => (flip(order), rf.transposed()),
            "set_order" => (arg.unwrap(), rf),
            "set_order_wr" => if arg.unwrap() != order { (arg.unwrap(), rf.transposed()) } else { (order, rf) },
            _ => unreachable!(),
        };
        debug_assert_eq!(old_order, order);
        self.refs[r] = Some(new_ref);
        match res {
            None => {
                out.oracle_fail(&format!("{op}: the operation panicked"));
                out.observe("panic")
            }
            Some(()) => {
                let m = self.regs[r].as_ref().unwrap();
                out.observe(&format!("ok | {}", st_str(m)));
                self.check_reg(out, r, &op);
            }
        }
    }

    /// swap_rows / swap_cols with any pair of indices
    pub fn swap_vecs(&mut self, out: &mut Out, r: usize, name: &str, a: usize, b: usize) {
        let op = format!("{name} {r} {a} {b}");
        out.announce(&op);
        let before = snapshot();
        let m = self.regs[r].as_mut().unwrap();
        let res = catch(|| match name {
            "swap_rows" => m.swap_rows(a, b).map(|_| ()),
            _ => m.swap_cols(a, b).map(|_| ()),
        });
        let after = snapshot();
        if (after.cloned, after.dropped, after.created) != (before.cloned, before.dropped, before.created) {
            out.oracle_fail(&format!("{op}: elements were cloned/dropped/created"));
        }
        let (order, mut rf) = self.refs[r].take().unwrap();
        let extent = if name == "swap_rows" { rf.nrows } else { rf.ncols };
        let valid = a < extent && b < extent;
        if valid {
            if name == "swap_rows" {
                rf.rows.swap(a, b);
            } else {
                for row in rf.rows.iter_mut() {
                    row.swap(a, b);
                }
            }
        }
        self.refs[r] = Some((order, rf));
        let m = self.regs[r].as_ref().unwrap();
        let obs = match res {
            None => "panic".to_string(),
            Some(Ok(())) => format!("ok | {}", st_str(m)),
            Some(Err(e)) => format!("err {} | {}", err_name(e), st_str(m)),
        };
        let want_ok = valid;
        if obs.starts_with("ok") != want_ok || (!want_ok && !obs.starts_with("err IndexOutOfBounds")) {
            out.oracle_fail(&format!("{op}: expected {}, implementation gave `{}`", if want_ok { "Ok" } else { "Err(IndexOutOfBounds)" }, obs));
        }
        out.count(if valid { if a == b { "swap:valid-equal" } else { "swap:valid-distinct" } } else { "swap:invalid" });
        out.observe(&obs);
        self.check_reg(out, r, &op);
    }

    /// swap(i, j) with plain ('p') or wrapping ('w') indices
    pub fn swap_elems(&mut self, out: &mut Out, r: usize, i: (char, isize, isize), j: (char, isize, isize)) {
        use matreex::WrappingIndex;
        let op = format!("swap {r} {} {} {} {} {} {}", i.0, i.1, i.2, j.0, j.1, j.2);
        out.announce(&op);
        let before = snapshot();
        let m = self.regs[r].as_mut().unwrap();
        let res = catch(|| match (i.0, j.0) {
            ('p', 'p') => m.swap((i.1 as usize, i.2 as usize), (j.1 as usize, j.2 as usize)).map(|_| ()),
            ('p', _) => m.swap((i.1 as usize, i.2 as usize), WrappingIndex::new(j.1, j.2)).map(|_| ()),
            (_, 'p') => m.swap(WrappingIndex::new(i.1, i.2), (j.1 as usize, j.2 as usize)).map(|_| ()),
            _ => m.swap(WrappingIndex::new(i.1, i.2), WrappingIndex::new(j.1, j.2)).map(|_| ()),
        });
        let after = snapshot();
        if (after.cloned, after.dropped, after.created) != (before.cloned, before.dropped, before.created) {
            out.oracle_fail(&format!("{op}: elements were cloned/dropped/created"));
        }
        let (order, mut rf) = self.refs[r].take().unwrap();
        let resolve = |k: (char, isize, isize), rf: &Ref| -> Option<(usize, usize)> {
            if k.0 == 'p' {
                let (a, b) = (k.1 as usize, k.2 as usize);
                if a < rf.nrows && b < rf.ncols { Some((a, b)) } else { None }
            } else if rf.nrows * rf.ncols == 0 {
                None
            } else {
                Some(((k.1 as i128).rem_euclid(rf.nrows as i128) as usize, (k.2 as i128).rem_euclid(rf.ncols as i128) as usize))
            }
        };
        let (pi, pj) = (resolve(i, &rf), resolve(j, &rf));
        let valid = pi.is_some() && pj.is_some();
        if let (Some(a), Some(b)) = (pi, pj) {
            let t = rf.rows[a.0][a.1].clone();
            rf.rows[a.0][a.1] = rf.rows[b.0][b.1].clone();
            rf.rows[b.0][b.1] = t;
        }
        self.refs[r] = Some((order, rf));
        let m = self.regs[r].as_ref().unwrap();
        let obs = match res {
            None => "panic".to_string(),
            Some(Ok(())) => format!("ok | {}", st_str(m)),
            Some(Err(e)) => format!("err {} | {}", err_name(e), st_str(m)),
        };
        if obs.starts_with("ok") != valid || (!valid && !obs.starts_with("err IndexOutOfBounds")) {
            out.oracle_fail(&format!("{op}: expected {}, implementation gave `{}`", if valid { "Ok" } else { "Err(IndexOutOfBounds)" }, obs));
        }
        out.count(if valid { if pi == pj { "swap-elem:same-element" } else { "swap-elem:distinct" } } else { "swap-elem:invalid" });
        out.observe(&obs);
        self.check_reg(out, r, &op);
    }

    /// dest.overwrite(&src): clones are visible (primed payloads) and counted by the ledger
    pub fn overwrite(&mut self, out: &mut Out, r: usize, q: usize) where E: Clone {
        let op = format!("overwrite {r} {q}");
        out.announce(&op);
        let before = snapshot();
        let src = self.regs[q].take().unwrap();
        let res = {
            let dst = self.regs[r].as_mut().unwrap();
            catch(|| { dst.overwrite(&src); })
        };
        let after = snapshot();
        let (sorder, srf) = self.refs[q].clone().unwrap();
        let (dorder, mut drf) = self.refs[r].take().unwrap();
        let (br, bc) = (drf.nrows.min(srf.nrows), drf.ncols.min(srf.ncols));
        for i in 0..br {
            for j in 0..bc {
                drf.rows[i][j] = if E::MARKS_CLONES { format!("{}'", srf.rows[i][j]) } else { srf.rows[i][j].clone() };
            }
        }
        self.refs[r] = Some((dorder, drf));
        let _ = sorder;
        if !E::ZST && E::KIND == "tok" {
            let block = (br * bc) as u64;
            if after.cloned - before.cloned != block || after.dropped - before.dropped != block || after.created != before.created {
                out.oracle_fail(&format!("{op}: block of {block} elements, but {} clones and {} drops", after.cloned - before.cloned, after.dropped - before.dropped));
            }
        }
        let obs = match res {
            None => {
                out.oracle_fail(&format!("{op}: overwrite panicked (dest {}x{}, src {}x{})", self.refs[r].as_ref().unwrap().1.nrows, self.refs[r].as_ref().unwrap().1.ncols, srf.nrows, srf.ncols));
                "panic".to_string()
            }
            Some(()) => format!("ok | {} | {}", st_str(self.regs[r].as_ref().unwrap()), st_str(&src)),
        };
        out.observe(&obs);
        self.regs[q] = Some(src);
        self.check_reg(out, r, &op);
        self.check_reg(out, q, &op);
    }
}
