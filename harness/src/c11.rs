//! C11: the matrix product over symbolic (non-commutative, non-associative) token terms.

use crate::common::*;
use crate::hist::*;
use crate::tok::*;

pub const KINDS: [&str; 6] = ["multiply", "like", "op_oo", "op_ob", "op_bo", "op_bb"];

pub fn one(out: &mut Out, n: usize, k: usize, k2: usize, m: usize, kinds: &[&str]) {
    for ao in ORDERS {
        for bo in ORDERS {
            out.case(&format!("mul lhs={n}x{k}{} rhs={k2}x{m}{} {}", ord_ch(ao), ord_ch(bo), if k == k2 { "conformable" } else { "non-conformable" }));
            out.count(&format!("orders:{}{}", ord_ch(ao), ord_ch(bo)));
            out.count(if k != k2 { "shape:non-conformable" } else if k == 0 { "shape:zero-inner" } else if n * m == 0 { "shape:empty-result" } else { "shape:regular" });
            let mut w = World::<Tok>::new(out);
            for kind in kinds {
                w.new_matrix(out, 0, ao, n, k, 100);
                w.new_matrix(out, 1, bo, k2, m, 500);
                w.mul(out, 2, 0, 1, kind);
                out.count(&format!("kind:{kind}"));
            }
            for r in 0..3 {
                if w.regs[r].is_some() { w.drop_reg(out, r); }
            }
            if k == k2 && n * k * m > 1 {
                out.nontrivial();
            }
        }
    }
}

/// non-conformable operands whose would-be result size overflows: the conformability error must
/// win (only reachable with element-less operands: one extent zero, the other huge)
fn nonconformable_huge(out: &mut Out) {
    use matreex::{Matrix, Order};
    out.case("mul non-conformable operands with an overflowing would-be result");
    out.nontrivial();
    let big = [1usize << 32, (isize::MAX as usize) + 1, usize::MAX];
    for &h in &big {
        // (lhs shape, rhs shape): inner dimensions differ; nrows(lhs) * ncols(rhs) overflows or exceeds isize::MAX bytes
        for ((ra, ca), (rb, cb)) in [((h, 0usize), (2usize, 3usize)), ((2, 3), (0, h)), ((h, 0), (1, 2)), ((h, 0), (1, 0)), ((0, 5), (0, h))] {
            if ca == rb { continue; }
            for (oa, ob) in [(Order::RowMajor, Order::RowMajor), (Order::ColMajor, Order::RowMajor), (Order::RowMajor, Order::ColMajor), (Order::ColMajor, Order::ColMajor)] {
                for kind in ["multiply", "like", "op"] {
                    let mk2 = |o: Order, r: usize, c: usize| { let mut m = Matrix::<u64>::with_default((r, c)).unwrap(); m.set_order(o); m };
                    let (a, b) = (mk2(oa, ra, ca), mk2(ob, rb, cb));
                    let op = format!("c08 mul {kind} 8 {} {ra} {ca} {} {rb} {cb}", ord_ch(oa), ord_ch(ob));
                    out.announce(&op);
                    let res: Option<Result<(usize, usize), matreex::Error>> = match kind {
                        "multiply" => catch(|| a.multiply(b).map(|m| (m.nrows(), m.ncols()))),
                        "like" => catch(|| a.multiplication_like_operation(b, |_, _| 0u64).map(|m| (m.nrows(), m.ncols()))),
                        _ => catch(|| { let m = &a * &b; Ok((m.nrows(), m.ncols())) }),
                    };
                    let obs = match res { None => "panic".to_string(), Some(Ok((r, c))) => format!("ok {r} {c} {}", r * c), Some(Err(e)) => format!("err {}", err_name(e)) };
                    let want = if kind == "op" { "panic" } else { "err ShapeNotConformable" };
                    if obs != want { out.oracle_fail(&format!("{op}: non-conformable operands, expected `{want}`, implementation gave `{obs}`")); }
                    out.count("shape:non-conformable-huge");
                    // the operator form panics where the method errs: same decision in the model
                    out.observe(&if kind == "op" && obs == "panic" { "err ShapeNotConformable".to_string() } else { obs });
                }
            }
        }
    }
}

/// products with ONE operand of zero-sized elements (a multiplicative unit): the zero-sized operand
/// goes through the zero-sized paths of transpose / set_order inside `multiply`
#[derive(Clone, Copy, Default)]
struct One;
impl std::ops::Mul<One> for u64 { type Output = u64; fn mul(self, _: One) -> u64 { self } }
impl std::ops::Mul<u64> for One { type Output = u64; fn mul(self, y: u64) -> u64 { y } }

fn zero_sized_operand(out: &mut Out) {
    use matreex::Matrix;
    out.case("mul one operand of zero-sized elements");
    out.nontrivial();
    for n in 0..=3usize {
        for k in 0..=3usize {
            for m in 0..=3usize {
                for oa in ORDERS {
                    for ob in ORDERS {
                        for side in ["RZ", "LZ"] {
                            let op = format!("mulz {side} {} {n} {k} {} {m}", ord_ch(oa), ord_ch(ob));
                            out.announce(&op);
                            let res: Option<Result<Matrix<u64>, matreex::Error>> = if side == "RZ" {
                                let a = mk(oa, n, k, |i| i as u64 + 1);
                                let b = mk(ob, k, m, |_| One);
                                catch(|| a.multiply(b))
                            } else {
                                let a = mk(oa, n, k, |_| One);
                                let b = mk(ob, k, m, |i| i as u64 + 1);
                                catch(|| a.multiply(b))
                            };
                            // oracle: row sums of lhs (RZ) / column sums of rhs (LZ), in lhs order
                            let val = |o: matreex::Order, r: usize, c: usize, nr: usize, nc: usize| -> u64 { (match o { matreex::Order::RowMajor => r * nc + c, matreex::Order::ColMajor => c * nr + r }) as u64 + 1 };
                            let want: Vec<Vec<u64>> = (0..n).map(|i| (0..m).map(|j| (0..k).map(|t| if side == "RZ" { val(oa, i, t, n, k) } else { val(ob, t, j, k, m) }).sum()).collect()).collect();
                            let obs = match res {
                                None => { out.oracle_fail(&format!("{op}: panicked")); "panic".to_string() }
                                Some(Err(e)) => { out.oracle_fail(&format!("{op}: conformable operands gave {}", err_name(e))); format!("err {}", err_name(e)) }
                                Some(Ok(c)) => {
                                    if (c.nrows(), c.ncols(), c.order()) != (n, m, oa) { out.oracle_fail(&format!("{op}: result is {}x{} {:?}", c.nrows(), c.ncols(), c.order())); }
                                    else {
                                        for i in 0..n { for j in 0..m { if c[(i, j)] != want[i][j] { out.oracle_fail(&format!("{op}: element ({i}, {j}) is {} instead of {}", c[(i, j)], want[i][j])); } } }
                                    }
                                    format!("ok {} {}x{} [{}]", ord_ch(c.order()), c.nrows(), c.ncols(), c.iter_elements().map(|x| x.to_string()).collect::<Vec<_>>().join(","))
                                }
                            };
                            out.count("shape:zero-sized-operand");
                            out.observe(&obs);
                        }
                    }
                }
            }
        }
    }
}

pub fn run_c11(out: &mut Out, rng: &mut Rng, tier: Tier) -> String {
    ledger_reset();
    let bound = 3;
    for n in 0..=bound {
        for k in 0..=bound {
            for m in 0..=bound {
                one(out, n, k, k, m, &KINDS);
            }
        }
    }
    // non-conformable operands (inner dimensions differ), incl. zero on one side
    for n in 0..=2 {
        for k in 0..=2 {
            for k2 in 0..=2 {
                if k == k2 { continue; }
                for m in 0..=2 {
                    one(out, n, k, k2, m, &KINDS);
                }
            }
        }
    }
    let extra = if tier == Tier::Quick { 40 } else { 600 };
    for _ in 0..extra {
        let (n, k, m) = (1 + rng.below(6), 1 + rng.below(6), 1 + rng.below(6));
        let kind = [*rng.pick(&KINDS)];
        one(out, n, k, k, m, &kind);
    }
    nonconformable_huge(out);
    zero_sized_operand(out);
    // inner dimensions and result sizes beyond small thresholds
    for (n, k, m) in [(3usize, 70usize, 2usize), (2, 1030, 1), (64, 1, 65), (33, 2, 32), (200, 1, 200), (3, 11000, 1)] {
        one(out, n, k, k, m, &["multiply", "like", "op_bb"]);
    }
    let s = snapshot();
    if s.double_drops > 0 || s.live != 0 {
        out.oracle_fail(&format!("ledger at the end of the run: {} tokens still live, {} double drops", s.live, s.double_drops));
    }
    out.exhaustive = true;
    format!(
        "exhaustive core: all shape triples (n, k, m) in {{0..={bound}}}^3 x four storage-order combinations x multiply, multiplication_like_operation (recording closure) and the four owned/borrowed * operator forms; \
         non-conformable pairs with inner dimensions from {{0,1,2}}; products with one operand of zero-sized elements (all shape triples up to 3, four order combinations, either side); non-conformable element-less operands whose would-be result has 2^32 .. usize::MAX rows or columns (the conformability error must win over SizeOverflow / CapacityOverflow), multiply / multiplication_like_operation / the * operator, four order combinations; {extra} random triples up to 6x6x6. Elements are symbolic tokens with destructors: products and sums are terms such as ((a'*b')+(c'*d')), \
         so factor order, k order, association and clone placement are visible. Oracle: textbook product over terms in an independent reference, result in lhs order, Ok/ShapeNotConformable/panic, closure call count and slice lengths, borrowed operands unchanged, ledger balanced. \
         A case is non-trivial when conformable with n*k*m > 1"
    )
}
