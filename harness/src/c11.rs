//! C11: the matrix product over symbolic (non-commutative, non-associative) token terms.

use crate::common::*;
use crate::hist::*;
use crate::tok::*;

const KINDS: [&str; 6] = ["multiply", "like", "op_oo", "op_ob", "op_bo", "op_bb"];

fn one(out: &mut Out, n: usize, k: usize, k2: usize, m: usize, kinds: &[&str]) {
    for ao in ORDERS {
        for bo in ORDERS {
            out.case(&format!("mul lhs={n}x{k}{} rhs={k2}x{m}{} {}", ord_ch(ao), ord_ch(bo), if k == k2 { "conformable" } else { "non-conformable" }));
            out.count(&format!("orders:{}{}", ord_ch(ao), ord_ch(bo)));
            out.count(if k != k2 { "shape:non-conformable" } else if k == 0 { "shape:zero-inner" } else if n * m == 0 { "shape:empty-result" } else { "shape:regular" });
            let mut w = World::<Tok>::new(out);
            for kind in kinds {
                w.new_matrix(out, 0, ao, n, k, 100);
                w.new_matrix(out, 1, bo, k2, m, 500);
                w.mul(out, 2, 0, 1, kind);
                out.count(&format!("kind:{kind}"));
            }
            for r in 0..3 {
                if w.regs[r].is_some() { w.drop_reg(out, r); }
            }
            if k == k2 && n * k * m > 1 {
                out.nontrivial();
            }
        }
    }
}

pub fn run_c11(out: &mut Out, rng: &mut Rng, tier: Tier) -> String {
    ledger_reset();
    let bound = 3;
    for n in 0..=bound {
        for k in 0..=bound {
            for m in 0..=bound {
                one(out, n, k, k, m, &KINDS);
            }
        }
    }
    // non-conformable operands (inner dimensions differ), incl. zero on one side
    for n in 0..=2 {
        for k in 0..=2 {
            for k2 in 0..=2 {
                if k == k2 { continue; }
                for m in 0..=2 {
                    one(out, n, k, k2, m, &KINDS);
                }
            }
        }
    }
    let extra = if tier == Tier::Quick { 40 } else { 600 };
    for _ in 0..extra {
        let (n, k, m) = (1 + rng.below(6), 1 + rng.below(6), 1 + rng.below(6));
        let kind = [*rng.pick(&KINDS)];
        one(out, n, k, k, m, &kind);
    }
    let s = snapshot();
    if s.double_drops > 0 || s.live != 0 {
        out.oracle_fail(&format!("ledger at the end of the run: {} tokens still live, {} double drops", s.live, s.double_drops));
    }
    out.exhaustive = true;
    format!(
        "exhaustive core: all shape triples (n, k, m) in {{0..={bound}}}^3 x four storage-order combinations x multiply, multiplication_like_operation (recording closure) and the four owned/borrowed * operator forms; \
         non-conformable pairs with inner dimensions from {{0,1,2}}; {extra} random triples up to 6x6x6. Elements are symbolic tokens with destructors: products and sums are terms such as ((a'*b')+(c'*d')), \
         so factor order, k order, association and clone placement are visible. Oracle: textbook product over terms in an independent reference, result in lhs order, Ok/ShapeNotConformable/panic, closure call count and slice lengths, borrowed operands unchanged, ledger balanced. \
         A case is non-trivial when conformable with n*k*m > 1"
    )
}
